package main

// C24 — T tie: the field mappings of every conversion in pkg/protocol/jsonrpc
// (types.go: ToProto / FromProto* / header and setting helpers; codec.go: the
// cases of ToFrame / FromFrame) are read as tables of facts; field types of the
// JSON structs and of the frame structs are resolved to basic types so that a
// narrowed field shows up.  Anything that is not a plain composite-literal
// mapping is refused.

import (
	"fmt"
	"go/ast"
	"go/parser"
	"go/token"
	"os"
	"path/filepath"
	"sort"
	"strconv"
	"strings"
)

func init() { register("C24", extractC24) }

type c24Field struct{ name, typ, tag string }

type c24Pkg struct {
	structs map[string][]c24Field // struct name -> fields (embedded: name = type name)
	named   map[string]string     // named type -> underlying type text
	consts  map[string]ast.Expr
}

func c24Load(files []*ast.File) *c24Pkg {
	p := &c24Pkg{structs: map[string][]c24Field{}, named: map[string]string{}, consts: map[string]ast.Expr{}}
	for _, f := range files {
		for _, d := range f.Decls {
			gd, ok := d.(*ast.GenDecl)
			if !ok {
				continue
			}
			switch gd.Tok {
			case token.TYPE:
				for _, s := range gd.Specs {
					ts := s.(*ast.TypeSpec)
					if st, ok := ts.Type.(*ast.StructType); ok {
						var fs []c24Field
						for _, fl := range st.Fields.List {
							tag := ""
							if fl.Tag != nil {
								if u, err := strconv.Unquote(fl.Tag.Value); err == nil {
									if i := strings.Index(u, `json:"`); i >= 0 {
										tag = u[i+6:]
										tag = tag[:strings.Index(tag, `"`)]
									}
								}
							}
							if len(fl.Names) == 0 {
								fs = append(fs, c24Field{exprText(fl.Type), exprText(fl.Type), tag})
							}
							for _, n := range fl.Names {
								fs = append(fs, c24Field{n.Name, exprText(fl.Type), tag})
							}
						}
						p.structs[ts.Name.Name] = fs
					} else {
						p.named[ts.Name.Name] = exprText(ts.Type)
					}
				}
			case token.CONST:
				var last ast.Expr
				for _, s := range gd.Specs {
					vs := s.(*ast.ValueSpec)
					for i, n := range vs.Names {
						if i < len(vs.Values) {
							last = vs.Values[i]
						}
						if last != nil {
							p.consts[n.Name] = last
						}
					}
				}
			}
		}
	}
	return p
}

func (p *c24Pkg) eval(e ast.Expr, depth int) (uint64, bool) {
	if depth > 8 {
		return 0, false
	}
	switch x := e.(type) {
	case *ast.BasicLit:
		v, err := strconv.ParseUint(x.Value, 0, 64)
		return v, err == nil
	case *ast.Ident:
		if c, ok := p.consts[x.Name]; ok {
			return p.eval(c, depth+1)
		}
	case *ast.ParenExpr:
		return p.eval(x.X, depth+1)
	case *ast.BinaryExpr:
		a, ok1 := p.eval(x.X, depth+1)
		b, ok2 := p.eval(x.Y, depth+1)
		if ok1 && ok2 {
			switch x.Op {
			case token.SHL:
				return a << b, true
			case token.OR:
				return a | b, true
			case token.ADD:
				return a + b, true
			}
		}
	}
	return 0, false
}

var c24Basic = map[string]bool{"int": true, "int8": true, "int16": true, "int32": true, "int64": true, "uint": true, "uint8": true, "uint16": true, "uint32": true, "uint64": true, "byte": true}

// basic resolves a type text (possibly `frame.X` or a local named type) to a basic numeric type, "" if not numeric.
func c24ResolveBasic(t string, local, fr *c24Pkg) string {
	for i := 0; i < 6; i++ {
		if c24Basic[t] {
			if t == "byte" {
				return "uint8"
			}
			return t
		}
		if strings.HasPrefix(t, "frame.") {
			u, ok := fr.named[strings.TrimPrefix(t, "frame.")]
			if !ok {
				return ""
			}
			local = fr
			t = u
			continue
		}
		u, ok := local.named[t]
		if !ok {
			return ""
		}
		t = u
	}
	return ""
}

func c24ParseDir(repo, rel string) ([]*ast.File, error) {
	dir := filepath.Join(repo, rel)
	ents, err := os.ReadDir(dir)
	if err != nil {
		return nil, err
	}
	fset := token.NewFileSet()
	var out []*ast.File
	for _, e := range ents {
		if e.IsDir() || !strings.HasSuffix(e.Name(), ".go") || strings.HasSuffix(e.Name(), "_test.go") {
			continue
		}
		f, err := parser.ParseFile(fset, filepath.Join(dir, e.Name()), nil, 0)
		if err != nil {
			return nil, err
		}
		out = append(out, f)
	}
	return out, nil
}

// structOf returns (package, struct name) for a type text as seen from the jsonrpc package.
func c24StructOf(t string, local, fr *c24Pkg) (*c24Pkg, string) {
	t = strings.TrimPrefix(t, "*")
	if strings.HasPrefix(t, "frame.") {
		n := strings.TrimPrefix(t, "frame.")
		if _, ok := fr.structs[n]; ok {
			return fr, n
		}
		return nil, ""
	}
	if _, ok := local.structs[t]; ok {
		return local, t
	}
	if u, ok := local.named[t]; ok { // e.g. DisconnectNotificationParams DisconnectParams
		return c24StructOf(u, local, fr)
	}
	return nil, ""
}

func c24FieldType(pk *c24Pkg, st, field string) string {
	for _, f := range pk.structs[st] {
		if f.name == field {
			return f.typ
		}
	}
	return ""
}

type c24Conv struct {
	label string // Lean-side name of the conversion
	recv  string // receiver type ("" = plain function)
	name  string
}

func extractC24(repo string) (string, error) {
	jfiles, err := c24ParseDir(repo, "pkg/protocol/jsonrpc")
	if err != nil {
		return "", err
	}
	ffiles, err := c24ParseDir(repo, "pkg/protocol/frame")
	if err != nil {
		return "", err
	}
	local, fr := c24Load(jfiles), c24Load(ffiles)
	findFn := func(recv, name string) *ast.FuncDecl {
		for _, f := range jfiles {
			var fd *ast.FuncDecl
			if recv == "" {
				fd = findFunc(f, name)
			} else {
				fd = findMethod(f, recv, name)
			}
			if fd != nil {
				return fd
			}
		}
		return nil
	}
	convs := []c24Conv{
		{"ConnectParams.ToProto", "ConnectParams", "ToProto"}, {"SendParams.ToProto", "SendParams", "ToProto"},
		{"SendRequest.ToProto", "SendRequest", "ToProto"}, {"RecvAckParams.ToProto", "RecvAckParams", "ToProto"},
		{"DisconnectParams.ToProto", "DisconnectParams", "ToProto"},
		{"FromProtoConnectAck", "", "FromProtoConnectAck"}, {"FromProtoSendAck", "", "FromProtoSendAck"},
		{"FromProtoRecvPacket", "", "FromProtoRecvPacket"}, {"FromProtoDisconnectPacket", "", "FromProtoDisconnectPacket"},
		{"FromProtoEventNotification", "", "FromProtoEventNotification"},
		{"fromProtoHeader", "", "fromProtoHeader"}, {"headerToFramer", "", "headerToFramer"},
	}
	var convRows, numRows []string
	for _, c := range convs {
		fd := findFn(c.recv, c.name)
		if fd == nil {
			return "", fmt.Errorf("conversion %s not found", c.label)
		}
		// variables with a known struct type: receiver and parameters
		vars := map[string]string{}
		if fd.Recv != nil && len(fd.Recv.List[0].Names) == 1 {
			vars[fd.Recv.List[0].Names[0].Name] = exprText(fd.Recv.List[0].Type)
		}
		for _, p := range fd.Type.Params.List {
			for _, n := range p.Names {
				vars[n.Name] = exprText(p.Type)
			}
		}
		// simple local definitions, substituted into literal values
		locals := map[string]ast.Expr{}
		ast.Inspect(fd.Body, func(n ast.Node) bool {
			switch s := n.(type) {
			case *ast.AssignStmt:
				if s.Tok == token.DEFINE && len(s.Rhs) == 1 {
					if id, ok := s.Lhs[0].(*ast.Ident); ok {
						if _, isLit := s.Rhs[0].(*ast.CompositeLit); !isLit {
							if u, isU := s.Rhs[0].(*ast.UnaryExpr); !isU || u.Op != token.AND {
								locals[id.Name] = s.Rhs[0]
							}
						}
					}
				}
			case *ast.DeclStmt:
				if gd, ok := s.Decl.(*ast.GenDecl); ok && gd.Tok == token.VAR {
					for _, sp := range gd.Specs {
						vs := sp.(*ast.ValueSpec)
						if len(vs.Names) == 1 && len(vs.Values) == 1 {
							locals[vs.Names[0].Name] = vs.Values[0]
						}
					}
				}
			}
			return true
		})
		found := 0
		ast.Inspect(fd.Body, func(n ast.Node) bool {
			lit, ok := n.(*ast.CompositeLit)
			if !ok || lit.Type == nil {
				return true
			}
			tpk, tst := c24StructOf(exprText(lit.Type), local, fr)
			if tpk == nil {
				return true
			}
			for _, el := range lit.Elts {
				kv, ok := el.(*ast.KeyValueExpr)
				if !ok {
					continue
				}
				key := exprText(kv.Key)
				val := kv.Value
				if id, ok := val.(*ast.Ident); ok {
					if l, ok := locals[id.Name]; ok {
						val = l
					}
				}
				if _, nested := val.(*ast.CompositeLit); nested {
					continue
				}
				found++
				convRows = append(convRows, fmt.Sprintf("(%s, %s, %s, %s)", leanStr(c.label), leanStr(exprText(lit.Type)), leanStr(key), leanStr(exprText(val))))
				// numeric pair: the single selector chain rooted at a typed variable
				var chain *ast.SelectorExpr
				nchains := 0
				ast.Inspect(val, func(m ast.Node) bool {
					if se, ok := m.(*ast.SelectorExpr); ok {
						root := se
						for {
							if in, ok := root.X.(*ast.SelectorExpr); ok {
								root = in
								continue
							}
							break
						}
						if id, ok := root.X.(*ast.Ident); ok {
							if _, typed := vars[id.Name]; typed {
								chain = se
								nchains++
								return false
							}
						}
					}
					return true
				})
				if nchains != 1 {
					continue
				}
				// resolve the chain's type
				parts := strings.Split(exprText(chain), ".")
				cpk, cst := c24StructOf(vars[parts[0]], local, fr)
				srcType := ""
				for i := 1; i < len(parts) && cpk != nil; i++ {
					ft := c24FieldType(cpk, cst, parts[i])
					if i == len(parts)-1 {
						if cpk == fr && !c24Basic[ft] && !strings.Contains(ft, ".") {
							ft = "frame." + ft
						}
						srcType = ft
					} else {
						if cpk == fr && !strings.Contains(ft, ".") {
							ft = "frame." + ft
						}
						cpk, cst = c24StructOf(ft, local, fr)
					}
				}
				tgtType := c24FieldType(tpk, tst, key)
				if tpk == fr && !c24Basic[tgtType] && !strings.Contains(tgtType, ".") {
					tgtType = "frame." + tgtType
				}
				sb, tb := c24ResolveBasic(srcType, local, fr), c24ResolveBasic(tgtType, local, fr)
				if sb == "" || tb == "" {
					continue
				}
				frameT, jsonT := sb, tb // FromProto*: frame is the source
				if tpk == fr {
					frameT, jsonT = tb, sb // ToProto: frame is the target
				}
				numRows = append(numRows, fmt.Sprintf("(%s, %s, %s, %s)", leanStr(c.label), leanStr(key), leanStr(frameT), leanStr(jsonT)))
			}
			return true
		})
		if found == 0 {
			return "", fmt.Errorf("%s: no field mapping found (shape changed)", c.label)
		}
	}

	// fromProtoHeader: the flags tested by the nil rule
	var nilTests []string
	{
		fd := findFn("", "fromProtoHeader")
		ifs, ok := fd.Body.List[0].(*ast.IfStmt)
		if !ok || len(ifs.Body.List) != 1 {
			return "", fmt.Errorf("fromProtoHeader: first statement is not the nil rule")
		}
		if r, ok := ifs.Body.List[0].(*ast.ReturnStmt); !ok || len(r.Results) != 1 || exprText(r.Results[0]) != "nil" {
			return "", fmt.Errorf("fromProtoHeader: the guarded statement is not `return nil`")
		}
		var walk func(e ast.Expr) error
		walk = func(e ast.Expr) error {
			switch x := e.(type) {
			case *ast.BinaryExpr:
				if x.Op != token.LAND {
					return fmt.Errorf("fromProtoHeader: nil rule is not a conjunction")
				}
				if err := walk(x.X); err != nil {
					return err
				}
				return walk(x.Y)
			case *ast.UnaryExpr:
				if x.Op == token.NOT {
					if se, ok := x.X.(*ast.SelectorExpr); ok {
						nilTests = append(nilTests, se.Sel.Name)
						return nil
					}
				}
			case *ast.ParenExpr:
				return walk(x.X)
			}
			return fmt.Errorf("fromProtoHeader: unsupported term %s in the nil rule", exprText(e))
		}
		if err := walk(ifs.Cond); err != nil {
			return "", err
		}
	}

	// SettingFlags.ToProto and fromProtoSetting
	var setTo, setFrom []string
	{
		fd := findFn("SettingFlags", "ToProto")
		if fd == nil {
			return "", fmt.Errorf("SettingFlags.ToProto not found")
		}
		for _, st := range fd.Body.List {
			ifs, ok := st.(*ast.IfStmt)
			if !ok {
				continue
			}
			se, ok := ifs.Cond.(*ast.SelectorExpr)
			if !ok || len(ifs.Body.List) != 1 {
				return "", fmt.Errorf("SettingFlags.ToProto: unsupported if")
			}
			as, ok := ifs.Body.List[0].(*ast.AssignStmt)
			if !ok || as.Tok != token.OR_ASSIGN {
				return "", fmt.Errorf("SettingFlags.ToProto: body is not `setting |= …`")
			}
			setTo = append(setTo, fmt.Sprintf("(%s, %s)", leanStr(se.Sel.Name), leanStr(strings.TrimPrefix(exprText(as.Rhs[0]), "frame."))))
		}
		fd = findFn("", "fromProtoSetting")
		if fd == nil {
			return "", fmt.Errorf("fromProtoSetting not found")
		}
		for _, st := range fd.Body.List {
			as, ok := st.(*ast.AssignStmt)
			if !ok || as.Tok != token.ASSIGN {
				continue
			}
			lhs, ok := as.Lhs[0].(*ast.SelectorExpr)
			if !ok {
				continue
			}
			t := exprText(as.Rhs[0]) // (setting&frame.SettingX)!=0
			if !strings.HasPrefix(t, "(setting&frame.") || !strings.HasSuffix(t, ")!=0") {
				return "", fmt.Errorf("fromProtoSetting: unsupported test %s", t)
			}
			setFrom = append(setFrom, fmt.Sprintf("(%s, %s)", leanStr(lhs.Sel.Name), leanStr(strings.TrimSuffix(strings.TrimPrefix(t, "(setting&frame."), ")!=0"))))
		}
	}
	var setConsts []string
	for _, n := range []string{"SettingReceiptEnabled", "SettingSignal", "SettingNoEncrypt", "SettingTopic", "SettingStream"} {
		c, ok := fr.consts[n]
		if !ok {
			return "", fmt.Errorf("frame.%s not found", n)
		}
		v, ok := fr.eval(c, 0)
		if !ok {
			return "", fmt.Errorf("frame.%s: cannot evaluate %s", n, exprText(c))
		}
		setConsts = append(setConsts, fmt.Sprintf("(%s, %d)", leanStr(n), v))
	}
	latest, ok := fr.eval(&ast.Ident{Name: "LatestVersion"}, 0)
	if !ok {
		return "", fmt.Errorf("frame.LatestVersion: cannot evaluate")
	}

	// ConnectParams.ToProto: the version default
	var verDefault []string
	{
		fd := findFn("ConnectParams", "ToProto")
		for _, st := range fd.Body.List {
			if ifs, ok := st.(*ast.IfStmt); ok && len(ifs.Body.List) == 1 {
				if as, ok := ifs.Body.List[0].(*ast.AssignStmt); ok {
					verDefault = append(verDefault, fmt.Sprintf("(%s, %s, %s)", leanStr(exprText(ifs.Cond)), leanStr(exprText(as.Lhs[0])), leanStr(exprText(as.Rhs[0]))))
				}
			}
		}
	}

	// ToFrame / FromFrame cases
	var toCases, fromCases []string
	{
		fd := findFn("", "ToFrame")
		if fd == nil {
			return "", fmt.Errorf("ToFrame not found")
		}
		ast.Inspect(fd.Body, func(n ast.Node) bool {
			cc, ok := n.(*ast.CaseClause)
			if !ok || len(cc.List) != 1 {
				return true
			}
			var ret *ast.ReturnStmt
			for _, st := range cc.Body {
				if r, ok := st.(*ast.ReturnStmt); ok {
					ret = r
				}
			}
			if ret != nil && len(ret.Results) == 3 {
				toCases = append(toCases, fmt.Sprintf("(%s, %s, %s)", leanStr(exprText(cc.List[0])), leanStr(exprText(ret.Results[0])), leanStr(exprText(ret.Results[1]))))
			}
			return true
		})
		fd = findFn("", "FromFrame")
		if fd == nil {
			return "", fmt.Errorf("FromFrame not found")
		}
		ast.Inspect(fd.Body, func(n ast.Node) bool {
			cc, ok := n.(*ast.CaseClause)
			if !ok || len(cc.List) != 1 {
				return true
			}
			usesID := false
			hasResult := "-"
			wrapper := ""
			for _, st := range cc.Body {
				ast.Inspect(st, func(m ast.Node) bool {
					switch x := m.(type) {
					case *ast.KeyValueExpr:
						if exprText(x.Key) == "ID" && exprText(x.Value) == "reqId" {
							usesID = true
						}
						if exprText(x.Key) == "Result" {
							hasResult = exprText(x.Value)
						}
					case *ast.CompositeLit:
						if wrapper == "" && x.Type != nil {
							wrapper = exprText(x.Type)
						}
					case *ast.CallExpr:
						if wrapper == "" && strings.HasPrefix(exprText(x.Fun), "FromProto") {
							if _, isRet := st.(*ast.ReturnStmt); !isRet {
								// conversion producing the whole notification (recv / event)
							}
						}
					}
					return true
				})
			}
			if wrapper == "" {
				// `result := FromProtoXNotification(x); return result, nil`
				for _, st := range cc.Body {
					if as, ok := st.(*ast.AssignStmt); ok && len(as.Rhs) == 1 {
						if c, ok := as.Rhs[0].(*ast.CallExpr); ok && strings.HasPrefix(exprText(c.Fun), "FromProto") {
							wrapper = exprText(c.Fun)
						}
					}
				}
			}
			id := "-"
			if usesID {
				id = "reqId"
			}
			fromCases = append(fromCases, fmt.Sprintf("(%s, %s, %s, %s)", leanStr(exprText(cc.List[0])), leanStr(wrapper), leanStr(id), leanStr(hasResult)))
			return true
		})
	}

	// JSON struct field types
	var jrows []string
	names := []string{"Header", "SettingFlags", "ConnectParams", "SendParams", "RecvAckParams", "DisconnectParams", "ConnectResult", "SendResult", "RecvNotificationParams", "EventNotificationParams", "BaseRequest", "BaseResponse", "BaseNotification", "PongResponse"}
	for _, st := range names {
		fs, ok := local.structs[st]
		if !ok {
			return "", fmt.Errorf("struct %s not found in types.go", st)
		}
		for _, f := range fs {
			jrows = append(jrows, fmt.Sprintf("(%s, %s, %s, %s)", leanStr(st), leanStr(f.name), leanStr(f.typ), leanStr(f.tag)))
		}
	}
	sort.Strings(numRows)

	var b strings.Builder
	b.WriteString("namespace WK.Gen.C24\n\n")
	list := func(doc, name, ty string, rows []string) {
		fmt.Fprintf(&b, "/-- %s -/\ndef %s : List (%s) := [\n  %s]\n\n", doc, name, ty, strings.Join(rows, ",\n  "))
	}
	list("every field of every conversion: (conversion, struct built, field, Go expression that feeds it)", "conv", "String × String × String × String", convRows)
	list("numeric fields that are carried: (conversion, field, basic type of the FRAME field, basic type of the JSON field)", "numericPairs", "String × String × String × String", numRows)
	list("fields of the JSON structs: (struct, field, Go type, json tag)", "jsonFields", "String × String × String × String", jrows)
	fmt.Fprintf(&b, "/-- Framer flags tested by fromProtoHeader's `return nil` rule -/\ndef hdrNilTests : List String := [%s]\n\n", strings.Join(func() []string {
		var o []string
		for _, s := range nilTests {
			o = append(o, leanStr(s))
		}
		return o
	}(), ", "))
	list("SettingFlags.ToProto: (flag, frame constant or-ed in)", "settingToProto", "String × String", setTo)
	list("fromProtoSetting: (flag, frame constant tested)", "settingFromProto", "String × String", setFrom)
	list("values of the frame.Setting constants", "settingConsts", "String × Nat", setConsts)
	fmt.Fprintf(&b, "/-- frame.LatestVersion -/\ndef latestVersion : Nat := %d\n\n", latest)
	list("ConnectParams.ToProto: (condition, variable, value) of the version default", "versionDefault", "String × String × String", verDefault)
	list("ToFrame: (message type, frame expression, request-id expression)", "toFrameCases", "String × String × String", toCases)
	list("FromFrame: (frame type, message built, `reqId` if the id is carried, Result expression or -)", "fromFrameCases", "String × String × String × String", fromCases)
	b.WriteString("end WK.Gen.C24\n")
	return b.String(), nil
}

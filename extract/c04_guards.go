package main

import (
	"fmt"
	"go/ast"
	"strings"
)

// c04Guards regenerates, from pkg/channel/replication/quorum_log.go,
//
//	commitGuards        quorumLog.Commit: the admission guards between `defer state.mu.Unlock()`
//	                    and the retained-command lookup
//	installSwitch       quorumLog.Install: `if state.authority.ID != (AuthorityID{}) { switch
//	                    compareAuthorityID(authority.ID, state.authority.ID) {…} } else {…}`
//	installPreRecovery  the guards between that switch and `selection, err := recoverQuorumPrefix(`
//	fenceAssigns        the assignments of fenceQuorumChannel, in order
//
// statement by statement over a whitelist of atoms; anything else fails the extraction (= broken tie).
func c04Guards(f *ast.File) (string, error) {
	var b strings.Builder
	errs := map[string]string{
		"ch.ErrNotReady": "notready", "ch.ErrStaleMeta": "stale", "ch.ErrWriteFenced": "fenced", "ch.ErrLogConflict": "conflict",
	}
	// result class of a return statement (Commit: `Receipt{}, err`; Install: `Installed{}, err` or the ready answer)
	retClass := func(fn string, ret *ast.ReturnStmt) (string, error) {
		if len(ret.Results) != 2 {
			return "", fmt.Errorf("%s: return with %d results", fn, len(ret.Results))
		}
		v, e := c04Text(ret.Results[0]), c04Text(ret.Results[1])
		zero := map[string]string{"Commit": "Receipt{}", "Install": "Installed{}"}[fn]
		if v == zero && errs[e] != "" {
			return errs[e], nil
		}
		if fn == "Install" && e == "nil" && v == "Installed{Authority: state.authority.ID, LEO: state.frontier.LEO, HW: state.hw}" {
			return "answer", nil
		}
		return "", fmt.Errorf("%s: unsupported return %s, %s", fn, v, e)
	}
	// a plain guard `if <atom> { return … }`
	guard := func(fn string, st ast.Stmt, atoms map[string]string) (string, bool, error) {
		is, ok := st.(*ast.IfStmt)
		if !ok || is.Init != nil {
			return "", false, nil
		}
		if is.Else != nil || len(is.Body.List) != 1 {
			return "", false, nil
		}
		ret, ok := is.Body.List[0].(*ast.ReturnStmt)
		if !ok {
			return "", false, nil
		}
		a, ok := atoms[c04Text(is.Cond)]
		if !ok {
			return "", true, fmt.Errorf("%s: unsupported guard condition %s", fn, c04Text(is.Cond))
		}
		c, err := retClass(fn, ret)
		if err != nil {
			return "", true, err
		}
		return fmt.Sprintf("if %s then %s else", a, leanStr(c)), true, nil
	}
	stmtText := func(st ast.Stmt) string {
		switch x := st.(type) {
		case *ast.ExprStmt:
			return c04Text(x.X)
		case *ast.AssignStmt:
			if len(x.Lhs) == 1 && len(x.Rhs) == 1 {
				return c04Text(x.Lhs[0]) + " " + x.Tok.String() + " " + c04Text(x.Rhs[0])
			}
		case *ast.DeferStmt:
			return "defer " + c04Text(x.Call)
		}
		return "<other>"
	}
	indexOf := func(list []ast.Stmt, pred func(ast.Stmt) bool) int {
		for i, st := range list {
			if pred(st) {
				return i
			}
		}
		return -1
	}
	isUnlock := func(st ast.Stmt) bool { return stmtText(st) == "defer state.mu.Unlock()" }

	// ---- Commit ------------------------------------------------------------
	cm := findMethod(f, "quorumLog", "Commit")
	if cm == nil {
		return "", fmt.Errorf("Commit: not found")
	}
	ci := indexOf(cm.Body.List, isUnlock)
	if ci < 0 {
		return "", fmt.Errorf("Commit: no `defer state.mu.Unlock()`")
	}
	commitAtoms := map[string]string{
		"!state.ready":                             "ready = false",
		"proposal.Expected != state.authority.ID": "expectedIsCurrent = false",
		"state.authority.WriteFence.Set()":         "fenceSet = true",
	}
	b.WriteString("/-- quorumLog.Commit: the admission guards between taking state.mu and the retained-command lookup -/\n")
	b.WriteString("def commitGuards (ready expectedIsCurrent fenceSet : Bool) : String :=\n")
	k := ci + 1
	for ; k < len(cm.Body.List); k++ {
		line, isGuard, err := guard("Commit", cm.Body.List[k], commitAtoms)
		if err != nil {
			return "", err
		}
		if !isGuard {
			break
		}
		b.WriteString("  " + line + "\n")
	}
	// the chain must end exactly at the retained lookup
	end, ok := func() (*ast.IfStmt, bool) {
		if k >= len(cm.Body.List) {
			return nil, false
		}
		is, ok := cm.Body.List[k].(*ast.IfStmt)
		return is, ok
	}()
	if !ok || end.Init == nil {
		return "", fmt.Errorf("Commit: the guard chain does not end at the retained-command lookup")
	}
	if as, ok := end.Init.(*ast.AssignStmt); !ok || len(as.Rhs) != 1 || c04Text(as.Rhs[0]) != "state.retained[proposal.CommandID]" {
		return "", fmt.Errorf("Commit: the guard chain does not end at the retained-command lookup")
	}
	b.WriteString("  \"pass\"\n\n")

	// ---- Install -----------------------------------------------------------
	in := findMethod(f, "quorumLog", "Install")
	if in == nil {
		return "", fmt.Errorf("Install: not found")
	}
	ii := indexOf(in.Body.List, isUnlock)
	si := indexOf(in.Body.List, func(st ast.Stmt) bool {
		is, ok := st.(*ast.IfStmt)
		return ok && is.Init == nil && c04Text(is.Cond) == "state.authority.ID != (AuthorityID{})"
	})
	ri := indexOf(in.Body.List, func(st ast.Stmt) bool {
		as, ok := st.(*ast.AssignStmt)
		return ok && len(as.Rhs) == 1 && strings.HasPrefix(c04Text(as.Rhs[0]), "recoverQuorumPrefix(")
	})
	if ii < 0 || si != ii+2 || ri < si || stmtText(in.Body.List[ii+1]) != "authorityAdvanced := false" {
		return "", fmt.Errorf("Install: unexpected statement order around the authority switch (unlock %d, switch %d, recovery %d)", ii, si, ri)
	}
	// `fenceQuorumChannel(state, authority, …); authorityAdvanced = true`
	isFence := func(list []ast.Stmt) bool {
		return len(list) == 2 && strings.HasPrefix(stmtText(list[0]), "fenceQuorumChannel(state, authority, ") &&
			stmtText(list[1]) == "authorityAdvanced = true"
	}
	sif := in.Body.List[si].(*ast.IfStmt)
	els, ok := sif.Else.(*ast.BlockStmt)
	if !ok || !isFence(els.List) {
		return "", fmt.Errorf("Install: the no-authority branch is not a plain fence")
	}
	if len(sif.Body.List) != 1 {
		return "", fmt.Errorf("Install: authority branch is not a single switch")
	}
	sw, ok := sif.Body.List[0].(*ast.SwitchStmt)
	if !ok || sw.Init != nil || sw.Tag == nil || c04Text(sw.Tag) != "compareAuthorityID(authority.ID, state.authority.ID)" {
		return "", fmt.Errorf("Install: authority branch does not switch on compareAuthorityID(authority.ID, state.authority.ID)")
	}
	installAtoms := map[string]string{
		"!sameAuthority(authority, state.authority)": "same = false",
		"authority.WriteFence.Set()":                 "fenceSet = true",
		"state.ready":                                "ready = true",
	}
	ordOf := map[string]string{"-1": ".lt", "0": ".eq", "1": ".gt"}
	arms := map[string][]string{}
	for _, cst := range sw.Body.List {
		cc, ok := cst.(*ast.CaseClause)
		if !ok || len(cc.List) != 1 || ordOf[c04Text(cc.List[0])] == "" {
			return "", fmt.Errorf("Install: unsupported case clause")
		}
		ord := ordOf[c04Text(cc.List[0])]
		if _, dup := arms[ord]; dup {
			return "", fmt.Errorf("Install: duplicate case %s", ord)
		}
		var lines []string
		switch {
		case isFence(cc.Body):
			lines = []string{leanStr("fence")}
		case len(cc.Body) == 1 && func() bool { _, ok := cc.Body[0].(*ast.ReturnStmt); return ok }():
			c, err := retClass("Install", cc.Body[0].(*ast.ReturnStmt))
			if err != nil {
				return "", err
			}
			lines = []string{leanStr(c)}
		default:
			for _, st := range cc.Body {
				line, isGuard, err := guard("Install", st, installAtoms)
				if err != nil {
					return "", err
				}
				if !isGuard {
					return "", fmt.Errorf("Install: case %s: unsupported statement %s", ord, stmtText(st))
				}
				lines = append(lines, line)
			}
			lines = append(lines, leanStr("keep")) // falls out of the switch with the state unchanged
		}
		arms[ord] = lines
	}
	b.WriteString("/-- quorumLog.Install: the authority switch (`keep` = fall through with the state unchanged,\n    `fence` = fenceQuorumChannel, `answer` = return the ready state's Installed) -/\n")
	b.WriteString("def installSwitch (hasAuthority : Bool) (cmp : Ordering) (same fenceSet ready : Bool) : String :=\n")
	b.WriteString("  if hasAuthority = true then\n    match cmp with\n")
	for _, ord := range []string{".lt", ".eq", ".gt"} {
		lines, ok := arms[ord]
		if !ok {
			return "", fmt.Errorf("Install: no case for %s", ord)
		}
		fmt.Fprintf(&b, "    | %s =>\n", ord)
		for _, l := range lines {
			b.WriteString("      " + l + "\n")
		}
	}
	b.WriteString("  else \"fence\"\n\n")

	b.WriteString("/-- quorumLog.Install: the guards between the authority switch and recoverQuorumPrefix -/\n")
	b.WriteString("def installPreRecovery (fenceSet : Bool) : String :=\n")
	for j := si + 1; j < ri; j++ {
		st := in.Body.List[j]
		if is, ok := st.(*ast.IfStmt); ok && c04Text(is.Cond) == "authorityAdvanced && l.cfg.RepairAuthorities != nil" &&
			is.Else == nil && len(is.Body.List) == 1 && stmtText(is.Body.List[0]) == "l.cfg.RepairAuthorities.InstallAuthority(authority)" {
			continue // publishes the authority to the repair owner; no control flow
		}
		line, isGuard, err := guard("Install", st, installAtoms)
		if err != nil {
			return "", err
		}
		if !isGuard {
			return "", fmt.Errorf("Install: unsupported statement before recovery: %s", stmtText(st))
		}
		b.WriteString("  " + line + "\n")
	}
	b.WriteString("  \"recover\"\n\n")

	// ---- fenceQuorumChannel --------------------------------------------------
	fq := findFunc(f, "fenceQuorumChannel")
	if fq == nil {
		return "", fmt.Errorf("fenceQuorumChannel: not found")
	}
	var assigns []string
	for _, st := range fq.Body.List {
		as, ok := st.(*ast.AssignStmt)
		if !ok || len(as.Lhs) != 1 || len(as.Rhs) != 1 || as.Tok.String() != "=" || !strings.HasPrefix(c04Text(as.Lhs[0]), "state.") {
			return "", fmt.Errorf("fenceQuorumChannel: unsupported statement %s", stmtText(st))
		}
		assigns = append(assigns, fmt.Sprintf("(%s, %s)", leanStr(strings.TrimPrefix(c04Text(as.Lhs[0]), "state.")), leanStr(c04Text(as.Rhs[0]))))
	}
	fmt.Fprintf(&b, "/-- fenceQuorumChannel: the fields it assigns, in order -/\ndef fenceAssigns : List (String × String) :=\n  [%s]\n\n", strings.Join(assigns, ",\n   "))
	return b.String(), nil
}

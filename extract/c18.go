package main

// C18 — T tie for the batch loop.  Reads the replay guard, the applied-index
// bump, the save-before-publish order of `(*StateMachine).ApplyBatch` (fsm.go)
// and the shape of `validateChanged` (mutation_guards.go) into
// lean/WK/Gen/C18.lean.  The loop model `WK.C18.stepEntry` is parameterised by
// these facts and the theorems are stated for `WK.Gen.C18.loopFacts`.

import (
	"fmt"
	"go/ast"
	"strings"
)

func init() { register("C18", extractC18) }

func c18StmtIndex(list []ast.Stmt, pred func(ast.Stmt) bool) int {
	for i, s := range list {
		if pred(s) {
			return i
		}
	}
	return -1
}

func c18AssignText(s ast.Stmt) string {
	if a, ok := s.(*ast.AssignStmt); ok && len(a.Lhs) == 1 && len(a.Rhs) == 1 {
		return exprText(a.Lhs[0]) + a.Tok.String() + exprText(a.Rhs[0])
	}
	if a, ok := s.(*ast.IncDecStmt); ok {
		return exprText(a.X) + a.Tok.String()
	}
	return ""
}

func extractC18(repo string) (string, error) {
	_, f, err := parseFile(repo, "pkg/controller/fsm/fsm.go")
	if err != nil {
		return "", err
	}
	ab := findMethod(f, "StateMachine", "ApplyBatch")
	if ab == nil {
		return "", fmt.Errorf("fsm.go: (*StateMachine).ApplyBatch not found")
	}
	body := ab.Body.List
	// current := sm.state.Clone(); next := current.Clone()
	ci := c18StmtIndex(body, func(s ast.Stmt) bool { return c18AssignText(s) == "current:=sm.state.Clone()" })
	ni := c18StmtIndex(body, func(s ast.Stmt) bool { return c18AssignText(s) == "next:=current.Clone()" })
	if ci < 0 || ni < ci {
		return "", fmt.Errorf("ApplyBatch: `current := sm.state.Clone(); next := current.Clone()` not found")
	}
	li := c18StmtIndex(body, func(s ast.Stmt) bool { _, ok := s.(*ast.RangeStmt); return ok })
	if li < ni {
		return "", fmt.Errorf("ApplyBatch: range loop not found")
	}
	loop := body[li].(*ast.RangeStmt)
	if exprText(loop.X) != "entries" || loop.Value == nil || exprText(loop.Value) != "entry" {
		return "", fmt.Errorf("ApplyBatch: loop is not `for _, entry := range entries`")
	}
	lb := loop.Body.List
	if len(lb) < 3 {
		return "", fmt.Errorf("ApplyBatch: loop body too short")
	}
	guard, ok := lb[0].(*ast.IfStmt)
	if !ok || guard.Init != nil || guard.Else != nil {
		return "", fmt.Errorf("ApplyBatch: first loop statement is not the replay guard")
	}
	if _, ok := guard.Body.List[len(guard.Body.List)-1].(*ast.BranchStmt); !ok {
		return "", fmt.Errorf("ApplyBatch: replay guard does not `continue`")
	}
	answers := false
	ast.Inspect(guard.Body, func(n ast.Node) bool {
		if id, ok := n.(*ast.Ident); ok && id.Name == "ReasonAlreadyApplied" {
			answers = true
		}
		return true
	})
	if !answers {
		return "", fmt.Errorf("ApplyBatch: replay guard does not answer ReasonAlreadyApplied")
	}
	var guardLe, guardOnCurrent bool
	switch exprText(guard.Cond) {
	case "current.Revision!=0&&entry.Index<=next.AppliedRaftIndex":
		guardLe, guardOnCurrent = true, true
	case "current.Revision!=0&&entry.Index<next.AppliedRaftIndex":
		guardLe, guardOnCurrent = false, true
	case "next.Revision!=0&&entry.Index<=next.AppliedRaftIndex":
		guardLe, guardOnCurrent = true, false
	case "next.Revision!=0&&entry.Index<next.AppliedRaftIndex":
		guardLe, guardOnCurrent = false, false
	default:
		return "", fmt.Errorf("ApplyBatch: unknown replay guard `%s`", exprText(guard.Cond))
	}
	if c18AssignText(lb[1]) != "result:=sm.applyMutation(&next,entry.Index,entry.Term,entry.Command)" {
		return "", fmt.Errorf("ApplyBatch: second loop statement is not the applyMutation call")
	}
	bump, ok := lb[2].(*ast.IfStmt)
	if !ok || len(bump.Body.List) != 1 || c18AssignText(bump.Body.List[0]) != "next.AppliedRaftIndex=entry.Index" {
		return "", fmt.Errorf("ApplyBatch: third loop statement is not the applied-index bump")
	}
	var bumpGt bool
	switch exprText(bump.Cond) {
	case "next.Revision!=0&&entry.Index>next.AppliedRaftIndex":
		bumpGt = true
	case "next.Revision!=0&&entry.Index>=next.AppliedRaftIndex":
		bumpGt = false
	default:
		return "", fmt.Errorf("ApplyBatch: unknown applied-index bump `%s`", exprText(bump.Cond))
	}
	// result.Revision / result.AppliedRaftIndex / pre-init reject reports entry.Index
	rest := ""
	for _, s := range lb[3:] {
		if t := c18AssignText(s); t != "" {
			rest += t + ";"
		}
		if ifs, ok := s.(*ast.IfStmt); ok {
			rest += "if " + exprText(ifs.Cond) + "{"
			for _, b := range ifs.Body.List {
				rest += c18AssignText(b) + ";"
			}
			rest += "};"
		}
	}
	resultShape := rest == "result.Revision=next.Revision;result.AppliedRaftIndex=next.AppliedRaftIndex;if next.Revision==0&&result.Rejected{result.AppliedRaftIndex=entry.Index;};out.Results=append(out.Results,result);"
	// after the loop: if next.Revision == 0 { ... return }, checksum, save, publish
	after := body[li+1:]
	un := c18StmtIndex(after, func(s ast.Stmt) bool {
		ifs, ok := s.(*ast.IfStmt)
		return ok && exprText(ifs.Cond) == "next.Revision==0" && c19EndsInReturnC18(ifs.Body)
	})
	sv := c18StmtIndex(after, func(s ast.Stmt) bool {
		ifs, ok := s.(*ast.IfStmt)
		return ok && ifs.Init != nil && c18AssignText(ifs.Init) == "err:=sm.store.Save(ctx,next)" && exprText(ifs.Cond) == "err!=nil" && c19EndsInReturnC18(ifs.Body)
	})
	pb := c18StmtIndex(after, func(s ast.Stmt) bool { return c18AssignText(s) == "sm.state=next.Clone()" })
	publishes := 0
	ast.Inspect(ab.Body, func(n ast.Node) bool {
		if a, ok := n.(*ast.AssignStmt); ok && len(a.Lhs) == 1 && exprText(a.Lhs[0]) == "sm.state" {
			publishes++
		}
		return true
	})
	saveBeforePublish := un >= 0 && sv > un && pb > sv && publishes == 1

	// validateChanged
	_, g, err := parseFile(repo, "pkg/controller/fsm/mutation_guards.go")
	if err != nil {
		return "", err
	}
	vc := findFunc(g, "validateChanged")
	if vc == nil {
		return "", fmt.Errorf("mutation_guards.go: validateChanged not found")
	}
	vb := vc.Body.List
	vcShape := false
	if len(vb) == 4 && c18AssignText(vb[0]) == "next.Revision++" && strings.HasPrefix(c18AssignText(vb[1]), "next.UpdatedAt=") {
		if ifs, ok := vb[2].(*ast.IfStmt); ok && ifs.Init != nil && c18AssignText(ifs.Init) == "err:=next.Validate()" && exprText(ifs.Cond) == "err!=nil" &&
			len(ifs.Body.List) == 2 && c18AssignText(ifs.Body.List[0]) == "*next=before" {
			if r, ok := ifs.Body.List[1].(*ast.ReturnStmt); ok && len(r.Results) == 1 && exprText(r.Results[0]) == "reject(ReasonInvalidState)" {
				if r2, ok := vb[3].(*ast.ReturnStmt); ok && len(r2.Results) == 1 && exprText(r2.Results[0]) == "changed()" {
					vcShape = true
				}
			}
		}
	}
	var b strings.Builder
	b.WriteString("import WK.Model.C18\nnamespace WK.Gen.C18\nopen WK.C18\n\n")
	fmt.Fprintf(&b, "/-- replay guard `%s`; bump `%s` -/\n", exprText(guard.Cond), exprText(bump.Cond))
	fmt.Fprintf(&b, "def loopFacts : LoopFacts := { guardLe := %v, guardOnCurrent := %v, bumpGt := %v }\n\n", guardLe, guardOnCurrent, bumpGt)
	fmt.Fprintf(&b, "/-- result.Revision/AppliedRaftIndex are taken from `next` after the bump; a reject before init reports entry.Index -/\ndef resultShape : Bool := %v\n\n", resultShape)
	fmt.Fprintf(&b, "/-- after the loop: `if next.Revision == 0 { return }`, then `sm.store.Save(ctx, next)` with error return, then the only `sm.state = next.Clone()` -/\ndef saveBeforePublish : Bool := %v\n\n", saveBeforePublish)
	fmt.Fprintf(&b, "/-- validateChanged = `next.Revision++; next.UpdatedAt = ..; if Validate fails { *next = before; reject(invalid_state) }; changed()` -/\ndef validateChangedShape : Bool := %v\n\n", vcShape)
	facts, err := c18HandlerFacts(repo)
	if err != nil {
		return "", err
	}
	b.WriteString("/-- rollback facts of every `apply*` handler of mutation_handlers.go -/\ndef handlerFacts : List HandlerFact := [\n")
	for i, hf := range facts {
		sep := ","
		if i == len(facts)-1 {
			sep = ""
		}
		fmt.Fprintf(&b, "  { name := %s, snapshot := %s, writes := %d, writesBeforeSnapshot := %v, validateArgsOk := %v, rejectsRestore := %v, otherReturns := %d, wholeReplace := %v }%s\n",
			leanStr(hf.name), leanStr(hf.snapshot), hf.writes, hf.writesBefore, hf.validateOk, hf.rejectsRestore, hf.other, hf.wholeReplace, sep)
	}
	b.WriteString("]\n\n")
	raise, err := c18RestoreFact(repo)
	if err != nil {
		return "", err
	}
	fmt.Fprintf(&b, "/-- apply_scheduler.go applyJob: `if st.AppliedRaftIndex < job.snapshot.Metadata.Index { st.AppliedRaftIndex = job.snapshot.Metadata.Index }` before Restore -/\ndef restoreFacts : RestoreFacts := { raiseOnlyIfLower := %v }\n\n", raise)
	b.WriteString("end WK.Gen.C18\n")
	return b.String(), nil
}

// c18RestoreFact: how applyJob reconciles the decoded snapshot's applied index
// with the snapshot metadata index before handing it to Restore.
func c18RestoreFact(repo string) (bool, error) {
	_, f, err := parseFile(repo, "pkg/controller/raft/apply_scheduler.go")
	if err != nil {
		return false, err
	}
	fd := findMethod(f, "applyScheduler", "applyJob")
	if fd == nil {
		return false, fmt.Errorf("apply_scheduler.go: applyJob not found")
	}
	const assign = "st.AppliedRaftIndex=job.snapshot.Metadata.Index"
	found, guarded, decoded, restored := 0, false, false, false
	var walk func(list []ast.Stmt, cond string)
	walk = func(list []ast.Stmt, cond string) {
		for _, s := range list {
			t := c18AssignText(s)
			if as, ok := s.(*ast.AssignStmt); ok && len(as.Rhs) == 1 && exprText(as.Rhs[0]) == "state.Decode(job.snapshot.Data)" {
				decoded = true
			}
			if t == assign {
				found++
				guarded = cond == "st.AppliedRaftIndex<job.snapshot.Metadata.Index"
				if restored || !decoded {
					found = 99
				}
			}
			if ifs, ok := s.(*ast.IfStmt); ok {
				if ifs.Init != nil && strings.Contains(c18AssignText(ifs.Init), "restorer.Restore(ctx,st)") {
					restored = true
				}
				walk(ifs.Body.List, exprText(ifs.Cond))
			}
		}
	}
	walk(fd.Body.List, "")
	if found == 0 {
		return false, fmt.Errorf("applyJob: the snapshot applied index is no longer reconciled with the metadata index")
	}
	if found != 1 || !restored {
		return false, fmt.Errorf("applyJob: unexpected shape of the snapshot install path")
	}
	return guarded, nil
}

type c18HF struct {
	name, snapshot                                         string
	writes, other                                          int
	writesBefore, validateOk, rejectsRestore, wholeReplace bool
}

// c18IsWrite: a statement that writes through the candidate `next`.
func c18IsWrite(s ast.Stmt) bool {
	switch x := s.(type) {
	case *ast.AssignStmt:
		for _, l := range x.Lhs {
			t := exprText(l)
			if strings.HasPrefix(t, "next.") || t == "*next" || strings.HasPrefix(t, "next[") {
				return true
			}
		}
	case *ast.IncDecStmt:
		return strings.HasPrefix(exprText(x.X), "next.")
	case *ast.ExprStmt:
		if c, ok := x.X.(*ast.CallExpr); ok {
			f := exprText(c.Fun)
			if f == "next.Normalize" {
				return true
			}
			if len(c.Args) > 0 && exprText(c.Args[0]) == "next" && f != "validateChanged" {
				return true // upsertNode(next, ..), upsertTask(next, ..) ...
			}
		}
	}
	return false
}

func c18HandlerFacts(repo string) ([]c18HF, error) {
	_, f, err := parseFile(repo, "pkg/controller/fsm/mutation_handlers.go")
	if err != nil {
		return nil, err
	}
	var out []c18HF
	for _, d := range f.Decls {
		fd, ok := d.(*ast.FuncDecl)
		if !ok || fd.Recv == nil || !strings.HasPrefix(fd.Name.Name, "apply") || fd.Body == nil {
			continue
		}
		if len(fd.Type.Params.List) == 0 || len(fd.Type.Params.List[0].Names) == 0 || fd.Type.Params.List[0].Names[0].Name != "next" {
			return nil, fmt.Errorf("%s: first parameter is not `next`", fd.Name.Name)
		}
		hf := c18HF{name: fd.Name.Name, snapshot: "-", validateOk: true, rejectsRestore: true}
		var snapPos, firstWrite ast.Node
		nsnap := 0
		// walk every block: statements in order, with access to the previous statement
		var walk func(list []ast.Stmt)
		var lastWriteText string
		walk = func(list []ast.Stmt) {
			for i, s := range list {
				if as, ok := s.(*ast.AssignStmt); ok && len(as.Lhs) == 1 && exprText(as.Lhs[0]) == "before" {
					nsnap++
					if snapPos == nil {
						snapPos = s
						hf.snapshot = exprText(as.Rhs[0])
					} else {
						hf.snapshot = "multiple"
					}
				}
				if c18IsWrite(s) {
					hf.writes++
					lastWriteText = c18AssignText(s)
					if firstWrite == nil {
						firstWrite = s
					}
					if snapPos == nil && c18AssignText(s) != "*next=initial" {
						hf.writesBefore = true
					}
				}
				if r, ok := s.(*ast.ReturnStmt); ok && len(r.Results) == 1 {
					t := exprText(r.Results[0])
					switch {
					case strings.HasPrefix(t, "validateChanged("):
						if t != "validateChanged(next,before,cmd)" || snapPos == nil {
							hf.validateOk = false
						}
					case snapPos == nil:
						// before any snapshot: nothing was written (checked by writesBefore)
					case strings.HasPrefix(t, "reject("):
						if i == 0 || c18AssignText(list[i-1]) != "*next=before" {
							hf.rejectsRestore = false
						}
					case strings.HasPrefix(t, "noop("):
					default:
						if _, ok := r.Results[0].(*ast.CompositeLit); !ok {
							hf.other++
						}
					}
				}
				switch x := s.(type) {
				case *ast.IfStmt:
					walk(x.Body.List)
					if e, ok := x.Else.(*ast.BlockStmt); ok {
						walk(e.List)
					} else if e, ok := x.Else.(*ast.IfStmt); ok {
						walk([]ast.Stmt{e})
					}
				case *ast.ForStmt:
					walk(x.Body.List)
				case *ast.RangeStmt:
					walk(x.Body.List)
				case *ast.BlockStmt:
					walk(x.List)
				case *ast.SwitchStmt:
					for _, c := range x.Body.List {
						walk(c.(*ast.CaseClause).Body)
					}
				}
			}
		}
		walk(fd.Body.List)
		_ = lastWriteText
		// applyInit: the only write replaces the whole candidate and is followed by `return changed()`
		if hf.writes == 1 && snapPos == nil {
			for _, s := range fd.Body.List {
				if ifs, ok := s.(*ast.IfStmt); ok && len(ifs.Body.List) == 2 && c18AssignText(ifs.Body.List[0]) == "*next=initial" {
					if r, ok := ifs.Body.List[1].(*ast.ReturnStmt); ok && len(r.Results) == 1 && exprText(r.Results[0]) == "changed()" {
						hf.wholeReplace = true
					}
				}
			}
		}
		out = append(out, hf)
	}
	if len(out) < 10 {
		return nil, fmt.Errorf("mutation_handlers.go: only %d apply* handlers found", len(out))
	}
	return out, nil
}

func c19EndsInReturnC18(b *ast.BlockStmt) bool {
	if b == nil || len(b.List) == 0 {
		return false
	}
	_, ok := b.List[len(b.List)-1].(*ast.ReturnStmt)
	return ok
}

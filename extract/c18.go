package main

// C18 — T tie for the batch loop.  Reads the replay guard, the applied-index
// bump, the save-before-publish order of `(*StateMachine).ApplyBatch` (fsm.go)
// and the shape of `validateChanged` (mutation_guards.go) into
// lean/WK/Gen/C18.lean.  The loop model `WK.C18.stepEntry` is parameterised by
// these facts and the theorems are stated for `WK.Gen.C18.loopFacts`.

import (
	"fmt"
	"go/ast"
	"strings"
)

func init() { register("C18", extractC18) }

func c18StmtIndex(list []ast.Stmt, pred func(ast.Stmt) bool) int {
	for i, s := range list {
		if pred(s) {
			return i
		}
	}
	return -1
}

func c18AssignText(s ast.Stmt) string {
	if a, ok := s.(*ast.AssignStmt); ok && len(a.Lhs) == 1 && len(a.Rhs) == 1 {
		return exprText(a.Lhs[0]) + a.Tok.String() + exprText(a.Rhs[0])
	}
	if a, ok := s.(*ast.IncDecStmt); ok {
		return exprText(a.X) + a.Tok.String()
	}
	return ""
}

func extractC18(repo string) (string, error) {
	_, f, err := parseFile(repo, "pkg/controller/fsm/fsm.go")
	if err != nil {
		return "", err
	}
	ab := findMethod(f, "StateMachine", "ApplyBatch")
	if ab == nil {
		return "", fmt.Errorf("fsm.go: (*StateMachine).ApplyBatch not found")
	}
	body := ab.Body.List
	// current := sm.state.Clone(); next := current.Clone()
	ci := c18StmtIndex(body, func(s ast.Stmt) bool { return c18AssignText(s) == "current:=sm.state.Clone()" })
	ni := c18StmtIndex(body, func(s ast.Stmt) bool { return c18AssignText(s) == "next:=current.Clone()" })
	if ci < 0 || ni < ci {
		return "", fmt.Errorf("ApplyBatch: `current := sm.state.Clone(); next := current.Clone()` not found")
	}
	li := c18StmtIndex(body, func(s ast.Stmt) bool { _, ok := s.(*ast.RangeStmt); return ok })
	if li < ni {
		return "", fmt.Errorf("ApplyBatch: range loop not found")
	}
	loop := body[li].(*ast.RangeStmt)
	if exprText(loop.X) != "entries" || loop.Value == nil || exprText(loop.Value) != "entry" {
		return "", fmt.Errorf("ApplyBatch: loop is not `for _, entry := range entries`")
	}
	lb := loop.Body.List
	if len(lb) < 3 {
		return "", fmt.Errorf("ApplyBatch: loop body too short")
	}
	guard, ok := lb[0].(*ast.IfStmt)
	if !ok || guard.Init != nil || guard.Else != nil {
		return "", fmt.Errorf("ApplyBatch: first loop statement is not the replay guard")
	}
	if _, ok := guard.Body.List[len(guard.Body.List)-1].(*ast.BranchStmt); !ok {
		return "", fmt.Errorf("ApplyBatch: replay guard does not `continue`")
	}
	answers := false
	ast.Inspect(guard.Body, func(n ast.Node) bool {
		if id, ok := n.(*ast.Ident); ok && id.Name == "ReasonAlreadyApplied" {
			answers = true
		}
		return true
	})
	if !answers {
		return "", fmt.Errorf("ApplyBatch: replay guard does not answer ReasonAlreadyApplied")
	}
	var guardLe, guardOnCurrent bool
	switch exprText(guard.Cond) {
	case "current.Revision!=0&&entry.Index<=next.AppliedRaftIndex":
		guardLe, guardOnCurrent = true, true
	case "current.Revision!=0&&entry.Index<next.AppliedRaftIndex":
		guardLe, guardOnCurrent = false, true
	case "next.Revision!=0&&entry.Index<=next.AppliedRaftIndex":
		guardLe, guardOnCurrent = true, false
	case "next.Revision!=0&&entry.Index<next.AppliedRaftIndex":
		guardLe, guardOnCurrent = false, false
	default:
		return "", fmt.Errorf("ApplyBatch: unknown replay guard `%s`", exprText(guard.Cond))
	}
	if c18AssignText(lb[1]) != "result:=sm.applyMutation(&next,entry.Index,entry.Term,entry.Command)" {
		return "", fmt.Errorf("ApplyBatch: second loop statement is not the applyMutation call")
	}
	bump, ok := lb[2].(*ast.IfStmt)
	if !ok || len(bump.Body.List) != 1 || c18AssignText(bump.Body.List[0]) != "next.AppliedRaftIndex=entry.Index" {
		return "", fmt.Errorf("ApplyBatch: third loop statement is not the applied-index bump")
	}
	var bumpGt bool
	switch exprText(bump.Cond) {
	case "next.Revision!=0&&entry.Index>next.AppliedRaftIndex":
		bumpGt = true
	case "next.Revision!=0&&entry.Index>=next.AppliedRaftIndex":
		bumpGt = false
	default:
		return "", fmt.Errorf("ApplyBatch: unknown applied-index bump `%s`", exprText(bump.Cond))
	}
	// result.Revision / result.AppliedRaftIndex / pre-init reject reports entry.Index
	rest := ""
	for _, s := range lb[3:] {
		if t := c18AssignText(s); t != "" {
			rest += t + ";"
		}
		if ifs, ok := s.(*ast.IfStmt); ok {
			rest += "if " + exprText(ifs.Cond) + "{"
			for _, b := range ifs.Body.List {
				rest += c18AssignText(b) + ";"
			}
			rest += "};"
		}
	}
	resultShape := rest == "result.Revision=next.Revision;result.AppliedRaftIndex=next.AppliedRaftIndex;if next.Revision==0&&result.Rejected{result.AppliedRaftIndex=entry.Index;};out.Results=append(out.Results,result);"
	// after the loop: if next.Revision == 0 { ... return }, checksum, save, publish
	after := body[li+1:]
	un := c18StmtIndex(after, func(s ast.Stmt) bool {
		ifs, ok := s.(*ast.IfStmt)
		return ok && exprText(ifs.Cond) == "next.Revision==0" && c19EndsInReturnC18(ifs.Body)
	})
	sv := c18StmtIndex(after, func(s ast.Stmt) bool {
		ifs, ok := s.(*ast.IfStmt)
		return ok && ifs.Init != nil && c18AssignText(ifs.Init) == "err:=sm.store.Save(ctx,next)" && exprText(ifs.Cond) == "err!=nil" && c19EndsInReturnC18(ifs.Body)
	})
	pb := c18StmtIndex(after, func(s ast.Stmt) bool { return c18AssignText(s) == "sm.state=next.Clone()" })
	publishes := 0
	ast.Inspect(ab.Body, func(n ast.Node) bool {
		if a, ok := n.(*ast.AssignStmt); ok && len(a.Lhs) == 1 && exprText(a.Lhs[0]) == "sm.state" {
			publishes++
		}
		return true
	})
	saveBeforePublish := un >= 0 && sv > un && pb > sv && publishes == 1

	// validateChanged
	_, g, err := parseFile(repo, "pkg/controller/fsm/mutation_guards.go")
	if err != nil {
		return "", err
	}
	vc := findFunc(g, "validateChanged")
	if vc == nil {
		return "", fmt.Errorf("mutation_guards.go: validateChanged not found")
	}
	vb := vc.Body.List
	vcShape := false
	if len(vb) == 4 && c18AssignText(vb[0]) == "next.Revision++" && strings.HasPrefix(c18AssignText(vb[1]), "next.UpdatedAt=") {
		if ifs, ok := vb[2].(*ast.IfStmt); ok && ifs.Init != nil && c18AssignText(ifs.Init) == "err:=next.Validate()" && exprText(ifs.Cond) == "err!=nil" &&
			len(ifs.Body.List) == 2 && c18AssignText(ifs.Body.List[0]) == "*next=before" {
			if r, ok := ifs.Body.List[1].(*ast.ReturnStmt); ok && len(r.Results) == 1 && exprText(r.Results[0]) == "reject(ReasonInvalidState)" {
				if r2, ok := vb[3].(*ast.ReturnStmt); ok && len(r2.Results) == 1 && exprText(r2.Results[0]) == "changed()" {
					vcShape = true
				}
			}
		}
	}
	var b strings.Builder
	b.WriteString("import WK.Model.C18\nnamespace WK.Gen.C18\nopen WK.C18\n\n")
	fmt.Fprintf(&b, "/-- replay guard `%s`; bump `%s` -/\n", exprText(guard.Cond), exprText(bump.Cond))
	fmt.Fprintf(&b, "def loopFacts : LoopFacts := { guardLe := %v, guardOnCurrent := %v, bumpGt := %v }\n\n", guardLe, guardOnCurrent, bumpGt)
	fmt.Fprintf(&b, "/-- result.Revision/AppliedRaftIndex are taken from `next` after the bump; a reject before init reports entry.Index -/\ndef resultShape : Bool := %v\n\n", resultShape)
	fmt.Fprintf(&b, "/-- after the loop: `if next.Revision == 0 { return }`, then `sm.store.Save(ctx, next)` with error return, then the only `sm.state = next.Clone()` -/\ndef saveBeforePublish : Bool := %v\n\n", saveBeforePublish)
	fmt.Fprintf(&b, "/-- validateChanged = `next.Revision++; next.UpdatedAt = ..; if Validate fails { *next = before; reject(invalid_state) }; changed()` -/\ndef validateChangedShape : Bool := %v\n\n", vcShape)
	b.WriteString("end WK.Gen.C18\n")
	return b.String(), nil
}

func c19EndsInReturnC18(b *ast.BlockStmt) bool {
	if b == nil || len(b.List) == 0 {
		return false
	}
	_, ok := b.List[len(b.List)-1].(*ast.ReturnStmt)
	return ok
}

package main

import (
	"fmt"
	"go/ast"
	"go/token"
	"hash/crc32"
	"io/fs"
	"path/filepath"
	"sort"
	"strings"
)

func init() { register("C21", extractC21) }

// hashSlotShape translates a function of the shape
//   func F(key string, count uint16) uint16 { if count == 0 { return 0 }; return uint16(CRC(key) % uint32(count)) }
// into a Lean definition over an abstract `crc` value.  crcCall maps the Go text
// of the accepted checksum call to the Lean name of that checksum.
func hashSlotShape(fd *ast.FuncDecl, crcCalls map[string]string) (which string, lean string, err error) {
	if fd == nil {
		return "", "", fmt.Errorf("function not found")
	}
	ps := fd.Type.Params.List
	var names []string
	var types []string
	for _, p := range ps {
		for _, n := range p.Names {
			names = append(names, n.Name)
			types = append(types, exprText(p.Type))
		}
	}
	if len(names) != 2 || types[0] != "string" || types[1] != "uint16" {
		return "", "", fmt.Errorf("%s: parameters are not (string, uint16)", fd.Name.Name)
	}
	if fd.Type.Results == nil || len(fd.Type.Results.List) != 1 || exprText(fd.Type.Results.List[0].Type) != "uint16" {
		return "", "", fmt.Errorf("%s: result is not uint16", fd.Name.Name)
	}
	key, count := names[0], names[1]
	body := fd.Body.List
	if len(body) != 2 {
		return "", "", fmt.Errorf("%s: body has %d statements, want 2", fd.Name.Name, len(body))
	}
	ifs, ok := body[0].(*ast.IfStmt)
	if !ok || ifs.Init != nil || ifs.Else != nil || exprText(ifs.Cond) != count+"==0" || len(ifs.Body.List) != 1 {
		return "", "", fmt.Errorf("%s: first statement is not `if %s == 0 { return 0 }`", fd.Name.Name, count)
	}
	r0, ok := ifs.Body.List[0].(*ast.ReturnStmt)
	if !ok || len(r0.Results) != 1 || exprText(r0.Results[0]) != "0" {
		return "", "", fmt.Errorf("%s: zero-count branch does not return 0", fd.Name.Name)
	}
	ret, ok := body[1].(*ast.ReturnStmt)
	if !ok || len(ret.Results) != 1 {
		return "", "", fmt.Errorf("%s: second statement is not a return", fd.Name.Name)
	}
	env := &xenv{
		vars:  map[string]ty{count: tU16},
		funcs: map[string]struct {
			lean string
			ret  ty
		}{},
	}
	// find the checksum call inside the return expression
	found := ""
	ast.Inspect(ret.Results[0], func(n ast.Node) bool {
		if c, ok := n.(*ast.CallExpr); ok {
			t := exprText(c)
			for pat := range crcCalls {
				if t == strings.ReplaceAll(pat, "KEY", key) {
					found = pat
				}
			}
		}
		return true
	})
	if found == "" {
		return "", "", fmt.Errorf("%s: no recognised checksum call in %s", fd.Name.Name, exprText(ret.Results[0]))
	}
	// register the call by its function text
	callFun := strings.SplitN(strings.ReplaceAll(found, "KEY", key), "(", 2)[0]
	env.funcs[callFun] = struct {
		lean string
		ret  ty
	}{"crc", tU32}
	s, t, err := env.xlate(ret.Results[0], tU16)
	if err != nil {
		return "", "", fmt.Errorf("%s: %v", fd.Name.Name, err)
	}
	if t != tU16 {
		return "", "", fmt.Errorf("%s: result expression is not uint16", fd.Name.Name)
	}
	lean = fmt.Sprintf("fun (crc : BitVec 32) (%s : BitVec 16) => if %s = 0#16 then 0#16 else %s", count, count, s)
	return crcCalls[found], lean, nil
}

func extractC21(repo string) (string, error) {
	var b strings.Builder
	b.WriteString("namespace WK.Gen.C21\n\n")
	// 1. the IEEE table as Go's standard library has it at extraction time
	b.WriteString("/-- `hash/crc32.IEEETable` of the Go toolchain in use -/\ndef ieeeTable : Array (BitVec 32) := #[\n")
	for i, v := range crc32.IEEETable {
		sep := ","
		if i == 255 {
			sep = ""
		}
		fmt.Fprintf(&b, "  0x%08x#32%s", v, sep)
		if i%4 == 3 {
			b.WriteString("\n")
		}
	}
	b.WriteString("]\n\n")

	// 2. checksumIEEEString of pkg/cluster/routing/router.go
	_, f, err := parseFile(repo, "pkg/cluster/routing/router.go")
	if err != nil {
		return "", err
	}
	fd := findFunc(f, "checksumIEEEString")
	if fd == nil {
		return "", fmt.Errorf("router.go: checksumIEEEString not found")
	}
	if len(fd.Type.Params.List) != 1 || len(fd.Type.Params.List[0].Names) != 1 || exprText(fd.Type.Params.List[0].Type) != "string" {
		return "", fmt.Errorf("checksumIEEEString: parameter is not one string")
	}
	val := fd.Type.Params.List[0].Names[0].Name
	st := fd.Body.List
	if len(st) != 3 {
		return "", fmt.Errorf("checksumIEEEString: %d statements, want 3 (init; loop; return)", len(st))
	}
	as, ok := st[0].(*ast.AssignStmt)
	if !ok || as.Tok != token.DEFINE || len(as.Lhs) != 1 || len(as.Rhs) != 1 {
		return "", fmt.Errorf("checksumIEEEString: first statement is not `crc := ...`")
	}
	crcVar := exprText(as.Lhs[0])
	env := &xenv{vars: map[string]ty{}, tables: map[string]ty{"crc32.IEEETable": tU32}, tblNm: map[string]string{"crc32.IEEETable": "ieeeTable"}, index: map[string]string{}}
	initS, initT, err := env.xlate(as.Rhs[0], tUnty)
	if err != nil {
		return "", fmt.Errorf("checksumIEEEString init: %v", err)
	}
	if initT != tU32 {
		return "", fmt.Errorf("checksumIEEEString: accumulator is not uint32")
	}
	loop, ok := st[1].(*ast.ForStmt)
	if !ok {
		return "", fmt.Errorf("checksumIEEEString: second statement is not a for loop")
	}
	// for i := 0; i < len(value); i++
	li, ok := loop.Init.(*ast.AssignStmt)
	if !ok || len(li.Lhs) != 1 || exprText(li.Rhs[0]) != "0" {
		return "", fmt.Errorf("checksumIEEEString: loop does not start at 0")
	}
	iv := exprText(li.Lhs[0])
	if exprText(loop.Cond) != iv+"<len("+val+")" {
		return "", fmt.Errorf("checksumIEEEString: loop condition is %s", exprText(loop.Cond))
	}
	if inc, ok := loop.Post.(*ast.IncDecStmt); !ok || inc.Tok != token.INC || exprText(inc.X) != iv {
		return "", fmt.Errorf("checksumIEEEString: loop post is not %s++", iv)
	}
	if len(loop.Body.List) != 1 {
		return "", fmt.Errorf("checksumIEEEString: loop body has %d statements", len(loop.Body.List))
	}
	ba, ok := loop.Body.List[0].(*ast.AssignStmt)
	if !ok || ba.Tok != token.ASSIGN || len(ba.Lhs) != 1 || exprText(ba.Lhs[0]) != crcVar {
		return "", fmt.Errorf("checksumIEEEString: loop body is not `%s = ...`", crcVar)
	}
	env.vars[crcVar] = tU32
	env.index[val+"["+iv+"]"] = "b"
	env.vars["b"] = tU8
	stepS, stepT, err := env.xlate(ba.Rhs[0], tU32)
	if err != nil {
		return "", fmt.Errorf("checksumIEEEString step: %v", err)
	}
	if stepT != tU32 {
		return "", fmt.Errorf("checksumIEEEString: step is not uint32")
	}
	ret, ok := st[2].(*ast.ReturnStmt)
	if !ok || len(ret.Results) != 1 {
		return "", fmt.Errorf("checksumIEEEString: no single return")
	}
	finS, finT, err := env.xlate(ret.Results[0], tU32)
	if err != nil || finT != tU32 {
		return "", fmt.Errorf("checksumIEEEString final: %v", err)
	}
	fmt.Fprintf(&b, "/-- `%s := %s` -/\ndef crcInit : BitVec 32 := %s\n\n", crcVar, exprText(as.Rhs[0]), initS)
	fmt.Fprintf(&b, "/-- loop body `%s = %s` -/\ndef crcStep (%s : BitVec 32) (b : BitVec 8) : BitVec 32 := %s\n\n", crcVar, exprText(ba.Rhs[0]), crcVar, stepS)
	fmt.Fprintf(&b, "/-- `return %s` -/\ndef crcFinal (%s : BitVec 32) : BitVec 32 := %s\n\n", exprText(ret.Results[0]), crcVar, finS)
	b.WriteString("def checksumIEEEString (s : List (BitVec 8)) : BitVec 32 := crcFinal (s.foldl crcStep crcInit)\n\n")

	// 3. every hash-slot mapping call site
	type site struct{ file, fn, leanName string }
	sites := []site{
		{"pkg/cluster/routing/router.go", "HashSlotForKey", "routerHashSlot"},
		{"pkg/hashslot/hashslottable.go", "HashSlotForKey", "tableHashSlot"},
		{"internal/bench/workload/group.go", "physicalHashSlotForKey", "benchHashSlot"},
		{"internal/bench/chatlifecycle/lifecycle_proof.go", "lifecycleHashSlotForKey", "lifecycleHashSlot"},
	}
	calls := map[string]string{
		"checksumIEEEString(KEY)":        "router",
		"crc32.ChecksumIEEE([]byte(KEY))": "stdlib",
	}
	b.WriteString("/-- which checksum each mapping uses: `router` = checksumIEEEString above, `stdlib` = hash/crc32.ChecksumIEEE -/\ninductive Crc | router | stdlib deriving DecidableEq, Repr\n\n")
	for _, s := range sites {
		_, f, err := parseFile(repo, s.file)
		if err != nil {
			return "", err
		}
		which, lean, err := hashSlotShape(findFunc(f, s.fn), calls)
		if err != nil {
			return "", fmt.Errorf("%s: %v", s.file, err)
		}
		fmt.Fprintf(&b, "/-- %s %s -/\ndef %s : BitVec 32 → BitVec 16 → BitVec 16 := %s\ndef %sCrc : Crc := .%s\n\n", s.file, s.fn, s.leanName, lean, s.leanName, which)
	}
	// 4. Node.HashSlotForKey must end in routing.HashSlotForKey(key, count)
	_, f, err = parseFile(repo, "pkg/cluster/node_slot_proxy_port.go")
	if err != nil {
		return "", err
	}
	m := findMethod(f, "Node", "HashSlotForKey")
	if m == nil {
		return "", fmt.Errorf("node_slot_proxy_port.go: Node.HashSlotForKey not found")
	}
	key := m.Type.Params.List[0].Names[0].Name
	deleg, zero, other := 0, 0, 0
	ast.Inspect(m.Body, func(n ast.Node) bool {
		if r, ok := n.(*ast.ReturnStmt); ok {
			switch {
			case len(r.Results) == 1 && strings.HasPrefix(exprText(r.Results[0]), "routing.HashSlotForKey("+key+","):
				deleg++
			case len(r.Results) == 1 && exprText(r.Results[0]) == "0":
				zero++
			default:
				other++
			}
		}
		return true
	})
	// the only non-delegating return allowed is the nil-receiver guard
	nilGuard := false
	if len(m.Body.List) > 0 {
		if ifs, ok := m.Body.List[0].(*ast.IfStmt); ok && exprText(ifs.Cond) == m.Recv.List[0].Names[0].Name+"==nil" {
			nilGuard = true
		}
	}
	last, _ := m.Body.List[len(m.Body.List)-1].(*ast.ReturnStmt)
	okTail := last != nil && len(last.Results) == 1 && strings.HasPrefix(exprText(last.Results[0]), "routing.HashSlotForKey("+key+",")
	fmt.Fprintf(&b, "/-- Node.HashSlotForKey: apart from the nil-receiver guard every return delegates to routing.HashSlotForKey(key, <count>) -/\ndef nodeDelegatesToRouter : Bool := %v\n\n", okTail && deleg >= 1 && other == 0 && (zero == 0 || (zero == 1 && nilGuard)))
	// 5. every definition of a variable named hashSlot in the routing package's table.go / router.go
	b.WriteString("/-- (function, right-hand side) of every definition/assignment of a variable named `hashSlot` in pkg/cluster/routing/{table,router}.go, in source order; `var` = a declaration without value -/\ndef routingHashSlotSites : List (String × String) := [\n")
	first := true
	for _, rel := range []string{"pkg/cluster/routing/router.go", "pkg/cluster/routing/table.go"} {
		_, f, err := parseFile(repo, rel)
		if err != nil {
			return "", err
		}
		for _, d := range f.Decls {
			fd, ok := d.(*ast.FuncDecl)
			if !ok || fd.Body == nil {
				continue
			}
			ast.Inspect(fd.Body, func(n ast.Node) bool {
				emit := func(rhs string) {
					if !first {
						b.WriteString(",\n")
					}
					first = false
					fmt.Fprintf(&b, "  (%s, %s)", leanStr(fd.Name.Name), leanStr(rhs))
				}
				switch x := n.(type) {
				case *ast.AssignStmt:
					for i, l := range x.Lhs {
						if id, ok := l.(*ast.Ident); ok && id.Name == "hashSlot" {
							if len(x.Rhs) == len(x.Lhs) {
								emit(exprText(x.Rhs[i]))
							} else if len(x.Rhs) == 1 {
								emit(exprText(x.Rhs[0]))
							}
						}
					}
				case *ast.ValueSpec:
					for i, nm := range x.Names {
						if nm.Name == "hashSlot" {
							if i < len(x.Values) {
								emit(exprText(x.Values[i]))
							} else {
								emit("var")
							}
						}
					}
				}
				return true
			})
		}
	}
	b.WriteString("\n]\n\n")
	// 6. repository-wide: every non-test function that reduces an IEEE checksum with `%` (a hash-slot
	//    style mapping).  A new mapping function that is not one of the translated sites changes this list.
	mods, err := c21CrcModFuncs(repo)
	if err != nil {
		return "", err
	}
	b.WriteString("/-- (file, function) of every non-test function of the repository whose body contains `<expr with an IEEE checksum call> % …`, sorted -/\ndef crcModFuncs : List (String × String) := [\n")
	for i, m := range mods {
		sep := ","
		if i == len(mods)-1 {
			sep = ""
		}
		fmt.Fprintf(&b, "  (%s, %s)%s\n", leanStr(m[0]), leanStr(m[1]), sep)
	}
	b.WriteString("]\n\n")
	// 7. pkg/slot/proxy hashSlotForKey(cluster any, key): never computes a slot itself; every non-zero
	//    return is `<x>.HashSlotForKey(key)` on the value type-asserted from `cluster`
	_, f, err = parseFile(repo, "pkg/slot/proxy/hashslot_compat.go")
	if err != nil {
		return "", err
	}
	pf := findFunc(f, "hashSlotForKey")
	if pf == nil {
		return "", fmt.Errorf("hashslot_compat.go: hashSlotForKey not found")
	}
	var pnames []string
	for _, p := range pf.Type.Params.List {
		for _, n := range p.Names {
			pnames = append(pnames, n.Name)
		}
	}
	pdeleg, pzero, pother, parith := 0, 0, 0, 0
	if len(pnames) == 2 {
		asserted := map[string]bool{}
		ast.Inspect(pf.Body, func(n ast.Node) bool {
			switch x := n.(type) {
			case *ast.AssignStmt:
				if len(x.Rhs) == 1 && len(x.Lhs) >= 1 {
					if ta, ok := x.Rhs[0].(*ast.TypeAssertExpr); ok && exprText(ta.X) == pnames[0] {
						asserted[exprText(x.Lhs[0])] = true
					}
				}
			case *ast.BinaryExpr:
				switch x.Op {
				case token.REM, token.QUO, token.AND, token.SHR, token.SHL, token.XOR, token.ADD, token.SUB, token.MUL:
					parith++
				}
			case *ast.ReturnStmt:
				if len(x.Results) != 1 {
					pother++
					break
				}
				t := exprText(x.Results[0])
				if t == "0" {
					pzero++
				} else if c, ok := x.Results[0].(*ast.CallExpr); ok {
					if se, ok := c.Fun.(*ast.SelectorExpr); ok && se.Sel.Name == "HashSlotForKey" && asserted[exprText(se.X)] && len(c.Args) == 1 && exprText(c.Args[0]) == pnames[1] {
						pdeleg++
					} else {
						pother++
					}
				} else {
					pother++
				}
			}
			return true
		})
	}
	fmt.Fprintf(&b, "/-- pkg/slot/proxy hashSlotForKey: no arithmetic, every return is `0` (no keyer) or `<asserted cluster>.HashSlotForKey(key)` -/\ndef proxyDelegatesToKeyer : Bool := %v\n\n", len(pnames) == 2 && pdeleg == 1 && pother == 0 && parith == 0)
	b.WriteString("end WK.Gen.C21\n")
	return b.String(), nil
}



// c21CrcModFuncs walks every non-test Go file of the repository and lists the functions that reduce an
// IEEE CRC-32 (stdlib ChecksumIEEE / Checksum / the router's checksumIEEEString) with the `%` operator.
func c21CrcModFuncs(repo string) ([][2]string, error) {
	var out [][2]string
	isCrc := func(e ast.Expr) bool {
		hit := false
		ast.Inspect(e, func(n ast.Node) bool {
			if c, ok := n.(*ast.CallExpr); ok {
				t := exprText(c.Fun)
				if t == "crc32.ChecksumIEEE" || t == "crc32.Checksum" || t == "checksumIEEEString" || t == "crc32.Update" {
					hit = true
				}
			}
			return true
		})
		return hit
	}
	err := filepath.WalkDir(repo, func(path string, d fs.DirEntry, err error) error {
		if err != nil {
			return err
		}
		name := d.Name()
		if d.IsDir() {
			if path != repo && (strings.HasPrefix(name, ".") || name == "vendor" || name == "node_modules" || name == "testdata" || strings.HasPrefix(name, "zzverif")) {
				return filepath.SkipDir
			}
			return nil
		}
		if !strings.HasSuffix(name, ".go") || strings.HasSuffix(name, "_test.go") || strings.HasPrefix(name, "zz_verif") {
			return nil
		}
		rel, _ := filepath.Rel(repo, path)
		_, f, perr := parseFile(repo, rel)
		if perr != nil {
			return nil // not our concern here: the Go build of the harness reports syntax errors
		}
		for _, dd := range f.Decls {
			fd, ok := dd.(*ast.FuncDecl)
			if !ok || fd.Body == nil {
				continue
			}
			hit := false
			// local variables assigned from a checksum expression count as checksums too
			tainted := map[string]bool{}
			ast.Inspect(fd.Body, func(n ast.Node) bool {
				if as, ok := n.(*ast.AssignStmt); ok && len(as.Lhs) == len(as.Rhs) {
					for i := range as.Lhs {
						if id, ok := as.Lhs[i].(*ast.Ident); ok && isCrc(as.Rhs[i]) {
							tainted[id.Name] = true
						}
					}
				}
				return true
			})
			usesTainted := func(e ast.Expr) bool {
				u := false
				ast.Inspect(e, func(n ast.Node) bool {
					if id, ok := n.(*ast.Ident); ok && tainted[id.Name] {
						u = true
					}
					return true
				})
				return u
			}
			ast.Inspect(fd.Body, func(n ast.Node) bool {
				if be, ok := n.(*ast.BinaryExpr); ok && be.Op == token.REM && (isCrc(be.X) || usesTainted(be.X)) {
					hit = true
				}
				return true
			})
			if hit {
				fn := fd.Name.Name
				if fd.Recv != nil && len(fd.Recv.List) == 1 {
					fn = exprText(fd.Recv.List[0].Type) + "." + fn
				}
				out = append(out, [2]string{filepath.ToSlash(rel), fn})
			}
		}
		return nil
	})
	if err != nil {
		return nil, err
	}
	sort.Slice(out, func(i, j int) bool {
		if out[i][0] != out[j][0] {
			return out[i][0] < out[j][0]
		}
		return out[i][1] < out[j][1]
	})
	return out, nil
}

package main

// C09 — T tie.  Facts about how pkg/db/message (and the commit coordinator)
// reach the engine, regenerated from the current source on every run:
//
//   * batchFns: every function/method of pkg/db/message (non-test files) that
//     creates an engine batch (`….NewBatch()`), commits one (`….Commit(x)`) or
//     hands prepared rows to the commit coordinator, with the number of
//     NewBatch / Commit calls, how many Commit arguments are the literals
//     `true` / `false` / something else, whether a NewBatch or Commit sits
//     inside a `for` loop, and whether the (single) Commit is a top-level
//     statement of the function body (i.e. on every path that gets past the
//     validation returns);
//   * engine.Batch.Commit maps sync=true to pebble.Sync and nothing else;
//   * engine.DB exposes no write except through a Batch (method list; no
//     direct pebble write call in the engine package outside batch.go's
//     staging methods);
//   * the coordinator's default commit function is `batch.Commit(true)`, it
//     commits each collected group once, and nobody outside tests replaces it.
//
// The classification of what is allowed (multi-batch paging functions,
// intentionally unsynced commits) is hand-written in lean/WK/Theorems/C09.lean;
// the theorems there are stated about these generated definitions.

import (
	"fmt"
	"go/ast"
	"go/parser"
	"go/token"
	"os"
	"path/filepath"
	"sort"
	"strings"
)

func init() { register("C09", extractC09) }

type c09Fn struct {
	name, file                                   string
	newBatch, commits, syncTrue, syncFalse, syncOther int
	inLoop, commitTop                            bool
	viaCoordinator                               int
	submits                                      int            // direct coordinator Submit/SubmitWithOutcome calls
	calls                                        map[string]int // call sites by bare function / method name
}

func c09ParseDir(repo, rel string) (*token.FileSet, map[string]*ast.File, error) {
	fset := token.NewFileSet()
	dir := filepath.Join(repo, rel)
	ents, err := os.ReadDir(dir)
	if err != nil {
		return nil, nil, err
	}
	files := map[string]*ast.File{}
	for _, e := range ents {
		n := e.Name()
		if e.IsDir() || !strings.HasSuffix(n, ".go") || strings.HasSuffix(n, "_test.go") || strings.HasPrefix(n, "zz_verif_") {
			continue
		}
		f, err := parser.ParseFile(fset, filepath.Join(dir, n), nil, 0)
		if err != nil {
			return nil, nil, err
		}
		files[n] = f
	}
	return fset, files, nil
}

func c09RecvName(fd *ast.FuncDecl) string {
	if fd.Recv == nil || len(fd.Recv.List) != 1 {
		return ""
	}
	t := fd.Recv.List[0].Type
	if s, ok := t.(*ast.StarExpr); ok {
		t = s.X
	}
	if id, ok := t.(*ast.Ident); ok {
		return id.Name
	}
	return "?"
}

// c09Imports = names under which the file being scanned imports other packages (calls through them are
// not same-package calls)
var c09Imports = map[string]bool{}

func c09SetImports(f *ast.File) {
	c09Imports = map[string]bool{}
	for _, im := range f.Imports {
		path := strings.Trim(im.Path.Value, "\"")
		name := path[strings.LastIndex(path, "/")+1:]
		if im.Name != nil {
			name = im.Name.Name
		}
		c09Imports[name] = true
	}
}

var c09CoordinatorEntry = map[string]bool{
	"commitPreparedRowsBatch": true, "commitPreparedRowsBatchResult": true, "commitPreparedCheckpointHWBatch": true,
}

// c09Scan walks a function body, tracking loop depth and whether a statement is
// a direct child of the function's outermost block.
func c09Scan(fd *ast.FuncDecl) c09Fn {
	r := c09Fn{name: fd.Name.Name, calls: map[string]int{}}
	if rn := c09RecvName(fd); rn != "" {
		r.name = rn + "." + fd.Name.Name
	}
	if fd.Body == nil {
		return r
	}
	topCommit := map[*ast.CallExpr]bool{}
	// a Commit call is "top level" if it occurs in a direct child statement of the body:
	// `return b.Commit(true)`, `if err := b.Commit(true); err != nil {…}` (Init), `err := b.Commit(true)`.
	for _, st := range fd.Body.List {
		var exprs []ast.Node
		switch s := st.(type) {
		case *ast.ReturnStmt:
			for _, e := range s.Results {
				exprs = append(exprs, e)
			}
		case *ast.IfStmt:
			if s.Init != nil {
				exprs = append(exprs, s.Init)
			}
		case *ast.AssignStmt:
			for _, e := range s.Rhs {
				exprs = append(exprs, e)
			}
		case *ast.ExprStmt:
			exprs = append(exprs, s.X)
		}
		for _, e := range exprs {
			ast.Inspect(e, func(n ast.Node) bool {
				if _, ok := n.(*ast.FuncLit); ok {
					return false
				}
				if c, ok := n.(*ast.CallExpr); ok {
					if sel, ok := c.Fun.(*ast.SelectorExpr); ok && sel.Sel.Name == "Commit" {
						topCommit[c] = true
					}
				}
				return true
			})
		}
	}
	r.commitTop = true
	var walk func(n ast.Node, loop int)
	walk = func(n ast.Node, loop int) {
		ast.Inspect(n, func(x ast.Node) bool {
			switch v := x.(type) {
			case *ast.ForStmt:
				if v.Init != nil {
					walk(v.Init, loop)
				}
				if v.Cond != nil {
					walk(v.Cond, loop+1)
				}
				if v.Post != nil {
					walk(v.Post, loop+1)
				}
				walk(v.Body, loop+1)
				return false
			case *ast.RangeStmt:
				walk(v.X, loop)
				walk(v.Body, loop+1)
				return false
			case *ast.CallExpr:
				if sel, ok := v.Fun.(*ast.SelectorExpr); ok {
					switch sel.Sel.Name {
					case "NewBatch":
						if len(v.Args) == 0 {
							r.newBatch++
							if loop > 0 {
								r.inLoop = true
							}
						}
					case "Commit":
						if len(v.Args) == 1 {
							r.commits++
							switch exprText(v.Args[0]) {
							case "true":
								r.syncTrue++
							case "false":
								r.syncFalse++
							default:
								r.syncOther++
							}
							if loop > 0 {
								r.inLoop = true
							}
							if !topCommit[v] {
								r.commitTop = false
							}
						}
					}
				}
				if id, ok := v.Fun.(*ast.Ident); ok {
					r.calls[id.Name]++
					if c09CoordinatorEntry[id.Name] {
						r.viaCoordinator++
					}
				}
				if sel, ok := v.Fun.(*ast.SelectorExpr); ok {
					if x, isIdent := sel.X.(*ast.Ident); !isIdent || !c09Imports[x.Name] {
						r.calls[sel.Sel.Name]++
					}
					if sel.Sel.Name == "SubmitWithOutcome" || sel.Sel.Name == "Submit" {
						r.submits++
					}
				}
				if sel, ok := v.Fun.(*ast.SelectorExpr); ok && (c09CoordinatorEntry[sel.Sel.Name] || sel.Sel.Name == "SubmitWithOutcome" || sel.Sel.Name == "Submit") {
					r.viaCoordinator++
				}
			}
			return true
		})
	}
	walk(fd.Body, 0)
	if r.commits == 0 {
		r.commitTop = false
	}
	return r
}

func c09Bool(b bool) string {
	if b {
		return "true"
	}
	return "false"
}

func extractC09(repo string) (string, error) {
	var b strings.Builder
	b.WriteString("namespace WK.Gen.C09\n\n")
	b.WriteString("structure BatchFn where\n  name : String\n  file : String\n  newBatch : Nat\n  commits : Nat\n  syncTrue : Nat\n  syncFalse : Nat\n  syncOther : Nat\n  inLoop : Bool\n  commitTop : Bool\n  viaCoordinator : Nat\n  deriving DecidableEq, Repr\n\n")

	// 1. pkg/db/message
	_, files, err := c09ParseDir(repo, "pkg/db/message")
	if err != nil {
		return "", err
	}
	var fns []c09Fn
	var names []string
	for n := range files {
		names = append(names, n)
	}
	sort.Strings(names)
	for _, n := range names {
		c09SetImports(files[n])
		for _, d := range files[n].Decls {
			fd, ok := d.(*ast.FuncDecl)
			if !ok {
				continue
			}
			r := c09Scan(fd)
			r.file = n
			if r.newBatch+r.commits+r.viaCoordinator > 0 {
				fns = append(fns, r)
			}
		}
	}
	// transitive commit count: own Commit calls + direct coordinator submissions + call sites of
	// same-package functions that (transitively) commit.  A mutation that commits its own batch and
	// then calls a committing helper (a second commit in one op) shows up with a total of 2.
	var allFns []c09Fn
	for _, n := range names {
		c09SetImports(files[n])
		for _, d := range files[n].Decls {
			fd, ok := d.(*ast.FuncDecl)
			if !ok {
				continue
			}
			r := c09Scan(fd)
			r.file = n
			allFns = append(allFns, r)
		}
	}
	bareOf := func(name string) string { return name[strings.LastIndex(name, ".")+1:] }
	total := map[string]int{}     // by qualified name
	bareTotal := map[string]int{} // max over the functions sharing a bare name
	for iter := 0; iter < 12; iter++ {
		for i := range allFns {
			f := &allFns[i]
			t := f.commits + f.submits
			for callee, cnt := range f.calls {
				if callee != bareOf(f.name) && bareTotal[callee] > 0 {
					t += cnt
				}
			}
			total[f.name] = t
		}
		bareTotal = map[string]int{}
		for name, t := range total {
			if t > bareTotal[bareOf(name)] {
				bareTotal[bareOf(name)] = t
			}
		}
	}
	if os.Getenv("C09_DEBUG") != "" {
		for i := range allFns {
			f := &allFns[i]
			if strings.HasSuffix(f.name, os.Getenv("C09_DEBUG")) {
				for callee, cnt := range f.calls {
					if bareTotal[callee] > 0 {
						fmt.Fprintln(os.Stderr, "DEBUG", f.name, "->", callee, cnt, bareTotal[callee])
					}
				}
			}
		}
	}
	var multi []string
	for name, t := range total {
		if t >= 2 {
			multi = append(multi, fmt.Sprintf("(%s, %d)", leanStr(name), t))
		}
	}
	sort.Strings(multi)
	if len(fns) < 10 {
		return "", fmt.Errorf("pkg/db/message: only %d batch-creating functions found; the package no longer has the expected shape", len(fns))
	}
	sort.Slice(fns, func(i, j int) bool {
		if fns[i].file != fns[j].file {
			return fns[i].file < fns[j].file
		}
		return fns[i].name < fns[j].name
	})
	b.WriteString("/-- every function of pkg/db/message that creates/commits an engine batch or submits to the commit coordinator -/\ndef batchFns : List BatchFn := [\n")
	for i, f := range fns {
		sep := ","
		if i == len(fns)-1 {
			sep = ""
		}
		fmt.Fprintf(&b, "  ⟨%s, %s, %d, %d, %d, %d, %d, %s, %s, %d⟩%s\n", leanStr(f.name), leanStr(f.file), f.newBatch, f.commits, f.syncTrue, f.syncFalse, f.syncOther, c09Bool(f.inLoop), c09Bool(f.commitTop), f.viaCoordinator, sep)
	}
	b.WriteString("]\n\n")

	b.WriteString("/-- (name, n) for every function of pkg/db/message whose body contains n >= 2 commit sites, counting\n    its own Commit calls, direct coordinator submissions and calls of same-package functions that commit (transitively) -/\ndef multiCommitFns : List (String × Nat) := [")
	for i, c := range multi {
		if i > 0 {
			b.WriteString(", ")
		}
		b.WriteString(c)
	}
	b.WriteString("]\n\n")

	// callers of the sync-parameterised cursor store: the literal arguments they pass
	var cursorCalls []string
	for _, n := range names {
		for _, d := range files[n].Decls {
			fd, ok := d.(*ast.FuncDecl)
			if !ok || fd.Body == nil {
				continue
			}
			ast.Inspect(fd.Body, func(x ast.Node) bool {
				if c, ok := x.(*ast.CallExpr); ok {
					if sel, ok := c.Fun.(*ast.SelectorExpr); ok && sel.Sel.Name == "storeCommittedDispatchCursor" && len(c.Args) == 3 {
						cursorCalls = append(cursorCalls, fd.Name.Name+":"+exprText(c.Args[2]))
					}
				}
				return true
			})
		}
	}
	sort.Strings(cursorCalls)
	b.WriteString("/-- `caller:syncArgument` of every storeCommittedDispatchCursor call -/\ndef cursorStoreCalls : List String := [")
	for i, c := range cursorCalls {
		if i > 0 {
			b.WriteString(", ")
		}
		b.WriteString(leanStr(c))
	}
	b.WriteString("]\n\n")

	// 2. engine.Batch.Commit
	_, bf, err := parseFile(repo, "pkg/db/internal/engine/batch.go")
	if err != nil {
		return "", err
	}
	cm := findMethod(bf, "Batch", "Commit")
	if cm == nil || cm.Body == nil {
		return "", fmt.Errorf("engine/batch.go: (*Batch).Commit not found")
	}
	var stmts []string
	for _, st := range cm.Body.List {
		stmts = append(stmts, c19StmtTextC09(st))
	}
	// expected: [guard] ; opts := pebble.NoSync ; if sync { opts = pebble.Sync } ; return b.batch.Commit(opts)
	syncParam := ""
	if len(cm.Type.Params.List) == 1 && len(cm.Type.Params.List[0].Names) == 1 && exprText(cm.Type.Params.List[0].Type) == "bool" {
		syncParam = cm.Type.Params.List[0].Names[0].Name
	}
	mapsSync := false
	if syncParam != "" && len(cm.Body.List) >= 3 {
		tail := cm.Body.List[len(cm.Body.List)-3:]
		as, ok1 := tail[0].(*ast.AssignStmt)
		ifs, ok2 := tail[1].(*ast.IfStmt)
		ret, ok3 := tail[2].(*ast.ReturnStmt)
		if ok1 && ok2 && ok3 && as.Tok == token.DEFINE && len(as.Lhs) == 1 && len(as.Rhs) == 1 && exprText(as.Rhs[0]) == "pebble.NoSync" &&
			ifs.Init == nil && ifs.Else == nil && exprText(ifs.Cond) == syncParam && len(ifs.Body.List) == 1 &&
			len(ret.Results) == 1 {
			v := exprText(as.Lhs[0])
			if set, ok := ifs.Body.List[0].(*ast.AssignStmt); ok && set.Tok == token.ASSIGN && len(set.Lhs) == 1 && exprText(set.Lhs[0]) == v &&
				len(set.Rhs) == 1 && exprText(set.Rhs[0]) == "pebble.Sync" {
				if c, ok := ret.Results[0].(*ast.CallExpr); ok && len(c.Args) == 1 && exprText(c.Args[0]) == v {
					if sel, ok := c.Fun.(*ast.SelectorExpr); ok && sel.Sel.Name == "Commit" {
						mapsSync = true
					}
				}
			}
		}
	}
	fmt.Fprintf(&b, "/-- (*engine.Batch).Commit(sync) ends with `opts := pebble.NoSync; if sync { opts = pebble.Sync }; return b.batch.Commit(opts)` -/\ndef engineCommitMapsSync : Bool := %s\n\n", c09Bool(mapsSync))
	b.WriteString("/-- statements of (*engine.Batch).Commit -/\ndef engineCommitBody : List String := [")
	for i, s := range stmts {
		if i > 0 {
			b.WriteString(", ")
		}
		b.WriteString(leanStr(s))
	}
	b.WriteString("]\n\n")

	// 3. write surface of the engine package
	_, efiles, err := c09ParseDir(repo, "pkg/db/internal/engine")
	if err != nil {
		return "", err
	}
	var dbMethods, directWrites []string
	pebbleWrite := map[string]bool{"Set": true, "Delete": true, "DeleteRange": true, "SingleDelete": true, "Merge": true, "Apply": true, "Ingest": true, "LogData": true, "DeleteSized": true, "RangeKeySet": true, "RangeKeyDelete": true, "RangeKeyUnset": true, "SetDeferred": true, "Commit": true}
	var enames []string
	for n := range efiles {
		enames = append(enames, n)
	}
	sort.Strings(enames)
	for _, n := range enames {
		for _, d := range efiles[n].Decls {
			fd, ok := d.(*ast.FuncDecl)
			if !ok || fd.Body == nil {
				continue
			}
			recv := c09RecvName(fd)
			if recv == "DB" && ast.IsExported(fd.Name.Name) {
				dbMethods = append(dbMethods, fd.Name.Name)
			}
			ast.Inspect(fd.Body, func(x ast.Node) bool {
				c, ok := x.(*ast.CallExpr)
				if !ok {
					return true
				}
				sel, ok := c.Fun.(*ast.SelectorExpr)
				if !ok || !pebbleWrite[sel.Sel.Name] {
					return true
				}
				recvText := exprText(sel.X)
				// writes through the pebble DB handle (…pdb.X) are direct; writes on a pebble batch inside a Batch method are staging
				if strings.HasSuffix(recvText, "pdb") {
					directWrites = append(directWrites, recv+"."+fd.Name.Name+":"+recvText+"."+sel.Sel.Name)
				} else if recv != "Batch" {
					directWrites = append(directWrites, recv+"."+fd.Name.Name+":"+recvText+"."+sel.Sel.Name)
				}
				return true
			})
		}
	}
	sort.Strings(dbMethods)
	sort.Strings(directWrites)
	b.WriteString("/-- exported methods of engine.DB -/\ndef engineDBMethods : List String := [")
	for i, s := range dbMethods {
		if i > 0 {
			b.WriteString(", ")
		}
		b.WriteString(leanStr(s))
	}
	b.WriteString("]\n\n/-- pebble write calls in the engine package that are not staging calls inside a Batch method -/\ndef engineDirectWrites : List String := [")
	for i, s := range directWrites {
		if i > 0 {
			b.WriteString(", ")
		}
		b.WriteString(leanStr(s))
	}
	b.WriteString("]\n\n")

	// 4. the commit coordinator
	_, cf, err := parseFile(repo, "pkg/db/internal/commit/coordinator.go")
	if err != nil {
		return "", err
	}
	nc := findFunc(cf, "NewCoordinator")
	if nc == nil {
		return "", fmt.Errorf("coordinator.go: NewCoordinator not found")
	}
	defaultCommit := ""
	ast.Inspect(nc.Body, func(x ast.Node) bool {
		as, ok := x.(*ast.AssignStmt)
		if !ok || len(as.Lhs) != 1 || len(as.Rhs) != 1 {
			return true
		}
		if strings.HasSuffix(exprText(as.Lhs[0]), ".commitFunc") {
			if fl, ok := as.Rhs[0].(*ast.FuncLit); ok && len(fl.Body.List) == 1 {
				defaultCommit = c19StmtTextC09(fl.Body.List[0])
			}
		}
		return true
	})
	cc := findMethod(cf, "Coordinator", "commit")
	if cc == nil {
		return "", fmt.Errorf("coordinator.go: (*Coordinator).commit not found")
	}
	ccFacts := c09Scan(cc)
	commitFuncCalls, commitFuncInLoop := 0, false
	var walk func(n ast.Node, loop int)
	walk = func(n ast.Node, loop int) {
		ast.Inspect(n, func(x ast.Node) bool {
			switch v := x.(type) {
			case *ast.ForStmt:
				walk(v.Body, loop+1)
				return false
			case *ast.RangeStmt:
				walk(v.Body, loop+1)
				return false
			case *ast.CallExpr:
				if id, ok := v.Fun.(*ast.Ident); ok && id.Name == "commitFunc" {
					commitFuncCalls++
					if loop > 0 {
						commitFuncInLoop = true
					}
				}
			}
			return true
		})
	}
	walk(cc.Body, 0)
	fmt.Fprintf(&b, "/-- the coordinator's default physical commit (NewCoordinator) -/\ndef coordinatorDefaultCommit : String := %s\n\n", leanStr(defaultCommit))
	fmt.Fprintf(&b, "/-- (*Coordinator).commit: NewBatch calls, calls of the commit function, any of them in a loop -/\ndef coordinatorNewBatch : Nat := %d\ndef coordinatorCommitCalls : Nat := %d\ndef coordinatorCommitInLoop : Bool := %s\n\n", ccFacts.newBatch, commitFuncCalls, c09Bool(commitFuncInLoop || ccFacts.inLoop))

	// SetCommitFunc callers outside tests, anywhere under pkg/ internal/ cmd/
	var setters []string
	for _, root := range []string{"pkg", "internal", "cmd"} {
		_ = filepath.Walk(filepath.Join(repo, root), func(p string, info os.FileInfo, err error) error {
			if err != nil || info.IsDir() || !strings.HasSuffix(p, ".go") || strings.HasSuffix(p, "_test.go") || strings.Contains(p, "zzverif") || strings.Contains(filepath.Base(p), "zz_verif_") {
				return nil
			}
			src, err := os.ReadFile(p)
			if err != nil || !strings.Contains(string(src), "SetCommitFunc(") {
				return nil
			}
			rel, _ := filepath.Rel(repo, p)
			if rel == "pkg/db/internal/commit/coordinator.go" {
				return nil
			}
			setters = append(setters, rel)
			return nil
		})
	}
	sort.Strings(setters)
	b.WriteString("/-- non-test files (other than the coordinator itself) that mention SetCommitFunc( -/\ndef setCommitFuncUsers : List String := [")
	for i, s := range setters {
		if i > 0 {
			b.WriteString(", ")
		}
		b.WriteString(leanStr(s))
	}
	b.WriteString("]\n\nend WK.Gen.C09\n")
	return b.String(), nil
}

func c19StmtTextC09(s ast.Stmt) string {
	switch v := s.(type) {
	case *ast.ReturnStmt:
		var parts []string
		for _, e := range v.Results {
			parts = append(parts, exprText(e))
		}
		return "return " + strings.Join(parts, ",")
	case *ast.AssignStmt:
		var l, r []string
		for _, e := range v.Lhs {
			l = append(l, exprText(e))
		}
		for _, e := range v.Rhs {
			r = append(r, exprText(e))
		}
		return strings.Join(l, ",") + v.Tok.String() + strings.Join(r, ",")
	case *ast.IfStmt:
		var body []string
		for _, b := range v.Body.List {
			body = append(body, c19StmtTextC09(b))
		}
		return "if " + exprText(v.Cond) + " {" + strings.Join(body, ";") + "}"
	case *ast.ExprStmt:
		return exprText(v.X)
	}
	return fmt.Sprintf("%T", s)
}

package main

import (
	"fmt"
	"go/ast"
	"strings"
)

// C28 — T tie: the order of the synchronisation calls in the SEND admission /
// drain protocol of pkg/gateway/core/async_send.go, as (nesting depth, call)
// lists.  The Lean theorems c28_src_* pin exactly what the LTS assumes:
// `closed` is read and `admitted.Add(1)` done inside ONE admissionMu critical
// section, every later failure exit gives the admission back, drain sets
// `closed` under the same mutex before it waits, and the batch handler gives
// admissions back only after dispatch (deferred).

func init() { register("C28", extractC28) }

var c28Calls = map[string]bool{
	"e.admissionMu.Lock": true, "e.admissionMu.Unlock": true, "e.closed.Load": true, "e.closed.Store": true,
	"e.admitted.Add": true, "e.admitted.Wait": true, "e.admitted.Done": true, "e.completeAdmission": true,
	"asyncSendShardIndex": true, "e.reserve": true, "e.reserveShard": true, "e.mailbox.SubmitHash": true,
	"e.consume": true, "e.consumeShard": true, "e.drainOnce.Do": true, "close": true,
	"e.dispatchMailboxBatch": true, "e.mailbox.Close": true,
}

// c28Walk records whitelisted calls in source order; depth grows with every block
// nested in an if/for/switch/select/func literal; calls under `defer` get a "defer " prefix.
func c28Walk(n ast.Node, depth int, deferred bool, out *[]string) {
	switch x := n.(type) {
	case nil:
		return
	case *ast.BlockStmt:
		for _, s := range x.List {
			c28Walk(s, depth, deferred, out)
		}
	case *ast.IfStmt:
		c28Walk(x.Init, depth, deferred, out)
		c28Expr(x.Cond, depth, deferred, out)
		c28Walk(x.Body, depth+1, deferred, out)
		if x.Else != nil {
			c28Walk(x.Else, depth+1, deferred, out)
		}
	case *ast.ForStmt:
		c28Walk(x.Body, depth+1, deferred, out)
	case *ast.RangeStmt:
		c28Walk(x.Body, depth+1, deferred, out)
	case *ast.SelectStmt:
		c28Walk(x.Body, depth+1, deferred, out)
	case *ast.CommClause:
		for _, s := range x.Body {
			c28Walk(s, depth, deferred, out)
		}
	case *ast.DeferStmt:
		c28Expr(x.Call, depth, true, out)
	case *ast.ExprStmt:
		c28Expr(x.X, depth, deferred, out)
	case *ast.AssignStmt:
		for _, r := range x.Rhs {
			c28Expr(r, depth, deferred, out)
		}
	case *ast.ReturnStmt:
		for _, r := range x.Results {
			c28Expr(r, depth, deferred, out)
		}
	case *ast.GoStmt:
		c28Expr(x.Call, depth, deferred, out)
	}
}

func c28Expr(e ast.Expr, depth int, deferred bool, out *[]string) {
	switch x := e.(type) {
	case nil:
		return
	case *ast.CallExpr:
		name := exprText(x.Fun)
		if _, isLit := x.Fun.(*ast.FuncLit); !isLit && c28Calls[name] {
			p := ""
			if deferred {
				p = "defer "
			}
			*out = append(*out, fmt.Sprintf("(%d, %s)", depth, leanStr(p+name)))
		}
		if fl, ok := x.Fun.(*ast.FuncLit); ok {
			c28Walk(fl.Body, depth+1, deferred, out)
		}
		for _, a := range x.Args {
			c28Expr(a, depth, deferred, out)
		}
	case *ast.FuncLit:
		c28Walk(x.Body, depth+1, deferred, out)
	case *ast.UnaryExpr:
		c28Expr(x.X, depth, deferred, out)
	case *ast.BinaryExpr:
		c28Expr(x.X, depth, deferred, out)
		c28Expr(x.Y, depth, deferred, out)
	case *ast.ParenExpr:
		c28Expr(x.X, depth, deferred, out)
	}
}

func extractC28(repo string) (string, error) {
	_, f, err := parseFile(repo, "pkg/gateway/core/async_send.go")
	if err != nil {
		return "", err
	}
	var b strings.Builder
	b.WriteString("namespace WK.Gen.C28\n\n")
	for _, m := range []string{"submit", "drain", "handleMailboxBatch", "completeAdmission", "closeMailboxAfterDrain"} {
		fd := findMethod(f, "sendExecutor", m)
		if fd == nil || fd.Body == nil {
			return "", fmt.Errorf("sendExecutor.%s not found", m)
		}
		var calls []string
		c28Walk(fd.Body, 0, false, &calls)
		fmt.Fprintf(&b, "/-- (nesting depth, call) in source order of sendExecutor.%s -/\ndef %sCalls : List (Nat × String) := [\n  %s]\n\n", m, m, strings.Join(calls, ",\n  "))
	}
	b.WriteString("end WK.Gen.C28\n")
	return b.String(), nil
}

//go:build verif

package replication

// Verification-only exported wrappers (ADD-ONLY) around the unexported durable
// quorum log, its dispatcher seams and its error sentinels.  The harness
// (package main) scripts which voter answers which request; everything between
// the seams is the real code.

import (
	"context"
	"errors"
	"time"

	ch "github.com/WuKongIM/WuKongIM/pkg/channel"
)

// VerifProposal is the exported view of one sealed durableProposal.
type VerifProposal struct {
	First, Last               uint64
	ChannelKey                ch.ChannelKey
	ChannelID                 ch.ChannelID
	Leader                    ch.NodeID
	Manifest                  ch.ProposalManifest
	Records                   []ch.Record
	Committed                 uint64
	ServerAllocatedMessageIDs bool
}

// VerifCompletion is the exported view of durabilityCompletion.
type VerifCompletion struct {
	Outcome  ch.AppendOutcome
	Err      error
	Follower ch.NodeID
	NeedFrom uint64
}

// VerifDurability is implemented by the harness: synchronous scripted votes.
type VerifDurability interface {
	SubmitLocal(VerifProposal) VerifCompletion
	SubmitReplica(ch.NodeID, VerifProposal) VerifCompletion
	// SubmitDeferred is post-quorum trailing convergence (completion ignored by the round).
	SubmitDeferred(ch.NodeID, VerifProposal)
	// HedgeDelay is what replicaHedgeDelay() answers: <= 0 admits the foreground hedge
	// follower at once, a long delay never lets the hedge timer fire.
	HedgeDelay() time.Duration
}

// VerifRecovery is implemented by the harness: scripted probe / fetch responders.
type VerifRecovery interface {
	Probe(voter ch.NodeID, indexes []uint64) (ProbeResult, error)
	Fetch(donor ch.NodeID, request FetchRequest) (FetchResult, error)
}

type verifDispatcher struct {
	local ch.NodeID
	dur   VerifDurability
	rec   VerifRecovery
}

func verifExportProposal(p durableProposal) VerifProposal {
	return VerifProposal{
		First: p.first, Last: p.last, ChannelKey: p.channelKey, ChannelID: p.channelID, Leader: p.leader,
		Manifest: p.manifest, Records: p.records, Committed: p.committed,
		ServerAllocatedMessageIDs: p.serverAllocatedMessageIDs,
	}
}

func verifImportCompletion(c VerifCompletion) durabilityCompletion {
	return durabilityCompletion{outcome: c.Outcome, err: c.Err, follower: c.Follower, needFrom: c.NeedFrom}
}

func (d *verifDispatcher) submitLocal(_ context.Context, p durableProposal, complete func(durabilityCompletion)) error {
	complete(verifImportCompletion(d.dur.SubmitLocal(verifExportProposal(p))))
	return nil
}

func (d *verifDispatcher) submitReplica(_ context.Context, voter ch.NodeID, p durableProposal, complete func(durabilityCompletion)) error {
	complete(verifImportCompletion(d.dur.SubmitReplica(voter, verifExportProposal(p))))
	return nil
}

func (d *verifDispatcher) submitReplicaDeferred(_ context.Context, voter ch.NodeID, p durableProposal, complete func(durabilityCompletion)) error {
	d.dur.SubmitDeferred(voter, verifExportProposal(p))
	complete(durabilityCompletion{outcome: ch.AppendOutcomeUnknown, err: errPeerOutcomeUnknown})
	return nil
}

// hedgedReplicaDispatcher: the hedge follower is an ordinary foreground vote.
func (d *verifDispatcher) replicaHedgeDelay() time.Duration { return d.dur.HedgeDelay() }

func (d *verifDispatcher) submitReplicaHedged(_ context.Context, voter ch.NodeID, p durableProposal, complete func(durabilityCompletion)) error {
	complete(verifImportCompletion(d.dur.SubmitReplica(voter, verifExportProposal(p))))
	return nil
}

func (d *verifDispatcher) submitRecoveryProbe(_ context.Context, query recoveryProbeQuery, complete func(ProbeResult, error)) error {
	complete(d.rec.Probe(query.Voter, append([]uint64(nil), query.Indexes...)))
	return nil
}

func (d *verifDispatcher) submitRecoveryFetch(_ context.Context, query recoveryFetchQuery, complete func(FetchResult, error)) error {
	complete(d.rec.Fetch(query.Donor, FetchRequest{
		ChannelKey: query.ChannelKey, ChannelID: query.ChannelID, Leader: query.Leader, Follower: query.Donor,
		Expected: query.Expected, From: query.From, Through: query.Through, Previous: query.Previous, MaxBytes: query.MaxBytes,
	}))
	return nil
}

var _ durabilityDispatcher = (*verifDispatcher)(nil)
var _ deferredReplicaDispatcher = (*verifDispatcher)(nil)
var _ hedgedReplicaDispatcher = (*verifDispatcher)(nil)
var _ recoveryDispatcher = (*verifDispatcher)(nil)

// VerifQuorumLog wraps the real unexported quorumLog.
type VerifQuorumLog struct{ log *quorumLog }

// VerifNewQuorumLog builds the REAL quorumLog over the given local store and scripted seams.
func VerifNewQuorumLog(local ch.NodeID, store ReplicaStore, rec VerifRecovery, dur VerifDurability, maxVoters, maxRetained int) (*VerifQuorumLog, error) {
	d := &verifDispatcher{local: local, dur: dur, rec: rec}
	log, err := newQuorumLog(quorumLogConfig{
		Local: local, Store: store, Recovery: d, Durability: d,
		RecoveryTimeout: time.Minute, RecoveryPageBytes: 64 << 10,
		MaxChannels: 8, MaxVoters: maxVoters, MaxProposalRecords: 3, MaxProposalBytes: 1 << 20, // the harness never proposes more than 3 records: a 3-record command is full-size
		MaxRetainedCommands: maxRetained,
	})
	if err != nil {
		return nil, err
	}
	return &VerifQuorumLog{log: log}, nil
}

func (l *VerifQuorumLog) Install(a Authority) (Installed, error) {
	return l.log.Install(context.Background(), a)
}

func (l *VerifQuorumLog) Commit(p Proposal) (Receipt, error) {
	return l.log.Commit(context.Background(), p)
}

// VerifChannelView is the owner-side volatile state of one resident channel.
type VerifChannelView struct {
	Present     bool
	Authority   AuthorityID
	Quorum      int
	Fenced      bool
	Ready       bool
	LEO         uint64
	FrontierHW  uint64
	HW          uint64
	PendingCmd  ch.CommandID
	HasPending  bool
	Order       []ch.CommandID
	RetainedLen int
}

func (l *VerifQuorumLog) View(key ch.ChannelKey) VerifChannelView {
	state := l.log.existingChannel(key)
	if state == nil {
		return VerifChannelView{}
	}
	state.mu.Lock()
	defer state.mu.Unlock()
	v := VerifChannelView{
		Present: true, Authority: state.authority.ID, Quorum: state.authority.WriteQuorum,
		Fenced: state.authority.WriteFence.Set(), Ready: state.ready,
		LEO: state.frontier.LEO, FrontierHW: state.frontier.Committed, HW: state.hw,
		Order: append([]ch.CommandID(nil), state.order...), RetainedLen: len(state.retained),
	}
	if state.pending != nil {
		v.HasPending = true
		v.PendingCmd = state.pending.proposal.manifest.CommandID
	}
	return v
}

// VerifLocalProbe runs the production local probe path (store.Load + mapProbeResult).
func VerifLocalProbe(local ch.NodeID, store ReplicaStore, key ch.ChannelKey, id ch.ChannelID, indexes []uint64) (ProbeResult, error) {
	d := &batchingRecoveryProbeDispatcher{local: local, ownerContext: context.Background(), localTimeout: time.Minute, store: store}
	return d.loadLocalRecoveryProbe(recoveryProbeQuery{ChannelKey: key, ChannelID: id, Leader: local, Voter: local, Indexes: indexes})
}

// VerifLocalFetch runs the production local donor path (store.Fetch + mapFetchResult).
func VerifLocalFetch(local ch.NodeID, store ReplicaStore, request FetchRequest) (FetchResult, error) {
	d := &batchingRecoveryProbeDispatcher{local: local, ownerContext: context.Background(), localTimeout: time.Minute, store: store}
	return d.loadLocalRecoveryFetch(request)
}

// VerifLocalCompletion mirrors runtimeLocalDurability.runBatch's per-item mapping.
func VerifLocalCompletion(p VerifProposal, result MutationResult) VerifCompletion {
	proposal := durableProposal{first: p.First, last: p.Last}
	if !validLocalDurabilityResult(proposal, result) {
		return VerifCompletion{Outcome: ch.AppendOutcomeUnknown, Err: errInvalidExchangeResult}
	}
	return VerifCompletion{Outcome: result.Outcome, Err: result.Err}
}

// VerifReplicaCompletion mirrors batchingDurabilityDispatcher.submitReplicaWithMode's
// `finish` closure (transport error, then the ReplicateStatus switch).
func VerifReplicaCompletion(follower ch.NodeID, result ReplicateResult, err error) VerifCompletion {
	if err != nil {
		return VerifCompletion{Outcome: ch.AppendOutcomeUnknown, Err: err}
	}
	switch result.Status {
	case ReplicateDurable:
		return VerifCompletion{Outcome: ch.AppendOutcomeDurable}
	case ReplicateAlreadyDurable:
		return VerifCompletion{Outcome: ch.AppendOutcomeAlreadyDurable}
	case ReplicateNeedFrom:
		return VerifCompletion{Outcome: ch.AppendOutcomeDefinitelyNotWritten, Err: errReplicaNeedsRepair, Follower: follower, NeedFrom: result.NeedFrom}
	case ReplicateStaleFence:
		return VerifCompletion{Outcome: ch.AppendOutcomeDefinitelyNotWritten, Err: ch.ErrStaleMeta}
	case ReplicateConflict:
		return VerifCompletion{Outcome: ch.AppendOutcomeConflict, Err: ch.ErrLogConflict}
	case ReplicateBackpressured:
		return VerifCompletion{Outcome: ch.AppendOutcomeDefinitelyNotWritten, Err: ch.ErrBackpressured}
	default:
		return VerifCompletion{Outcome: ch.AppendOutcomeUnknown, Err: errPeerOutcomeUnknown}
	}
}

// VerifErrClass maps every error the durable quorum log can return to a closed enum.
func VerifErrClass(err error) string {
	switch {
	case err == nil:
		return "ok"
	case errors.Is(err, VerifErrLinkDown):
		return "link-down"
	case errors.Is(err, errDurableQuorumUnavailable):
		return "unavailable"
	case errors.Is(err, errRecoveryQuorumUnavailable):
		return "recovery-unavailable"
	case errors.Is(err, errRecoveryProbeIncomplete):
		return "probe-incomplete"
	case errors.Is(err, ch.ErrInvalidConfig):
		return "invalid"
	case errors.Is(err, ch.ErrNotReady):
		return "notready"
	case errors.Is(err, ch.ErrStaleMeta):
		return "stale"
	case errors.Is(err, ch.ErrWriteFenced):
		return "fenced"
	case errors.Is(err, ch.ErrLogConflict):
		return "conflict"
	case errors.Is(err, ch.ErrBackpressured):
		return "backpressure"
	case errors.Is(err, ch.ErrTooManyChannels):
		return "toomany"
	case errors.Is(err, ch.ErrClosed):
		return "closed"
	case errors.Is(err, errPeerOutcomeUnknown), errors.Is(err, errInvalidExchangeResult):
		return "peer-unknown"
	default:
		return "other"
	}
}

// VerifCompareAuthorityID exposes the authority order.
func VerifCompareAuthorityID(a, b AuthorityID) int { return compareAuthorityID(a, b) }

// VerifPreferredFollowerIndex exposes the follower rotation of runDurableRound.
func VerifPreferredFollowerIndex(key ch.ChannelKey, followers int) int {
	return preferredFollowerIndex(key, followers)
}

// VerifBarrierCommandID exposes the deterministic barrier command of an authority.
func VerifBarrierCommandID(a Authority) ch.CommandID {
	id, _ := recoveryBarrierContent(a)
	return id
}

// VerifErrLinkDown is the transport error a scripted-down voter answers with.
var VerifErrLinkDown = errors.New("verif: peer unreachable")

type verifGoExecutor struct{}

func (verifGoExecutor) Submit(task func()) error { go task(); return nil }

// VerifRepairFollower runs the REAL runtimeRepairOwner.repair (follower gap repair: load the
// leader frontier, fetch leader pages from needFrom, replicate every proposal to the follower
// through a real peerBatcher over `link`).  valid=false when the evidence is not a
// validFollowerRepair or the leader frontier cannot cover it (repair would only wait).
func VerifRepairFollower(leader ch.NodeID, store ReplicaStore, link PeerLink, key ch.ChannelKey, id ch.ChannelID,
	follower ch.NodeID, needFrom uint64) (repaired bool, valid bool) {
	loaded, err := store.Load(context.Background(), LoadBatch{Items: []LoadRequest{{ChannelKey: key, ChannelID: id}}})
	if err != nil || len(loaded.Items) != 1 || loaded.Items[0].Err != nil {
		return false, false
	}
	state := loaded.Items[0].State
	repair := followerRepair{channelKey: key, channelID: id, leader: leader, manifest: state.Manifest, follower: follower, needFrom: needFrom}
	if !validFollowerRepair(repair) || state.LEO < needFrom {
		return false, false
	}
	ctx, cancel := context.WithCancel(context.Background())
	defer cancel()
	peers, err := newPeerBatcher(peerBatcherConfig{
		Link: link, Executor: verifGoExecutor{}, OwnerContext: ctx, ExchangeTimeout: time.Minute,
		MaxTargetFlight: 2, MaxBatchItems: 4, MaxBatchBytes: 1 << 20,
		MaxQueuedItems: 64, MaxQueuedBytes: 64 << 20, MaxTargetQueuedItems: 16, MaxTargetQueuedBytes: 16 << 20,
	})
	if err != nil {
		return false, false
	}
	owner := &runtimeRepairOwner{ctx: ctx, store: store, peers: peers, timeout: 5 * time.Second, maxPageBytes: 64 << 10}
	return owner.repair(ctx, repair), true
}

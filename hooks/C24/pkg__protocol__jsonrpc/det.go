//go:build verif

package jsonrpc

// VerifDetermine exposes determineMessageType.
func VerifDetermine(p *Probe) (int, string, error) { return determineMessageType(p) }

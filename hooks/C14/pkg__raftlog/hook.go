//go:build verif

package raftlog

// VerifSetCurrentMetaAfterMetaLoadHook installs the package's own test yield point
// (DB.currentMetaAfterMetaLoadHook: called by every meta-view load right after the log
// meta key was read and before the manifest is read).  Add-only; nil removes it.
func VerifSetCurrentMetaAfterMetaLoadHook(db *DB, fn func(scope Scope)) {
	db.currentMetaAfterMetaLoadHook = fn
}

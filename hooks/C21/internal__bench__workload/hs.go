//go:build verif

package workload

// VerifPhysicalHashSlotForKey exposes the bench workload's private mapping.
func VerifPhysicalHashSlotForKey(key string, n uint16) uint16 { return physicalHashSlotForKey(key, n) }

//go:build verif

package cluster

// VerifNodeWithHashSlotCount returns a Node whose only populated field is the
// configured hash-slot count, so that Node.HashSlotForKey can be observed.
func VerifNodeWithHashSlotCount(count uint16) *Node {
	n := &Node{}
	n.cfg.Slots.HashSlotCount = count
	return n
}

//go:build verif

package proxy

// VerifHashSlotForKey exposes the slot proxy's hash-slot lookup (delegation to the cluster's keyer).
func VerifHashSlotForKey(cluster any, key string) uint16 { return hashSlotForKey(cluster, key) }

//go:build verif

package chatlifecycle

// VerifLifecycleHashSlotForKey exposes the chat-lifecycle bench's private mapping.
func VerifLifecycleHashSlotForKey(key string, n uint16) uint16 { return lifecycleHashSlotForKey(key, n) }

//go:build verif

package routing

// VerifChecksumIEEEString exposes the router's hand-rolled CRC.
func VerifChecksumIEEEString(s string) uint32 { return checksumIEEEString(s) }

//go:build verif

package routing

// VerifChecksumIEEEString exposes the router's hand-rolled CRC.
func VerifChecksumIEEEString(s string) uint32 { return checksumIEEEString(s) }

// VerifRouterWithTable returns a Router whose current table is t.
func VerifRouterWithTable(t *Table) *Router {
	r := NewRouter()
	r.current.Store(t)
	return r
}

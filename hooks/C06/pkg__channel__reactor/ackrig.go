//go:build verif

package reactor

import (
	"time"

	ch "github.com/WuKongIM/WuKongIM/pkg/channel"
	"github.com/WuKongIM/WuKongIM/pkg/channel/machine"
	"github.com/WuKongIM/WuKongIM/pkg/channel/transport"
)

// VerifAckRig wraps one machine.ChannelState in a minimal loaded runtimeChannel of
// a real Reactor so that the reactor's three guarded follower-ack entry points
// (handleLeaderAck progress / stopped, applyLeaderPullAckOffset) can be driven
// synchronously.  Add-only: nothing here changes reactor behaviour.
type VerifAckRig struct {
	r  *Reactor
	rc *runtimeChannel
}

// VerifReply is one append future completed by the reactor, in completion order.
type VerifReply struct {
	OpID  ch.OpID
	Err   error
	Items []ch.AppendBatchItemResult
}

func VerifNewAckRig(state *machine.ChannelState) *VerifAckRig {
	r := NewReactor(ReactorConfig{LocalNode: state.LocalNode})
	rc := &runtimeChannel{state: state}
	r.channels[state.Key] = rc
	return &VerifAckRig{r: r, rc: rc}
}

// arm registers one future per pending append waiter so that completeReplies
// publishes the machine's replies; the order of publication is recorded.
func (g *VerifAckRig) arm(log *[]VerifReply) {
	g.rc.waiters = make(map[ch.OpID]*Future, len(g.rc.state.PendingAppends))
	for opID := range g.rc.state.PendingAppends {
		id := opID
		f := NewFuture()
		f.beforeComplete = func(res Result) {
			*log = append(*log, VerifReply{OpID: id, Err: res.Err, Items: res.AppendBatch.Items})
		}
		g.rc.waiters[id] = f
	}
}

// ProgressAck drives handleLeaderAck with Stopped=false.
func (g *VerifAckRig) ProgressAck(key ch.ChannelKey, epoch, leaderEpoch uint64, follower ch.NodeID, match uint64) (error, []VerifReply) {
	var log []VerifReply
	g.arm(&log)
	fut := NewFuture()
	g.r.handleLeaderAck(Event{Kind: EventAck, Key: g.rc.state.Key, Future: fut, Ack: transport.AckRequest{
		ChannelKey: key, Epoch: epoch, LeaderEpoch: leaderEpoch, Follower: follower, MatchOffset: match}})
	g.rc.waiters = nil
	return fut.Result().Err, log
}

// StoppedAck drives handleLeaderAck with Stopped=true on a fresh lifecycle whose
// activity version is lifecycleVersion.
func (g *VerifAckRig) StoppedAck(key ch.ChannelKey, epoch, leaderEpoch uint64, follower ch.NodeID, match, lifecycleVersion, ackVersion uint64) (error, []VerifReply) {
	var log []VerifReply
	g.arm(&log)
	g.rc.lifecycle = newChannelRuntimeLifecycle(time.Now(), lifecycleVersion)
	fut := NewFuture()
	g.r.handleLeaderAck(Event{Kind: EventAck, Key: g.rc.state.Key, Future: fut, Ack: transport.AckRequest{
		ChannelKey: key, Epoch: epoch, LeaderEpoch: leaderEpoch, Follower: follower, MatchOffset: match,
		ActivityVersion: ackVersion, Stopped: true}})
	g.rc.waiters = nil
	g.rc.lifecycle = channelRuntimeLifecycle{}
	return fut.Result().Err, log
}

// PullAck drives applyLeaderPullAckOffset (the AckOffset piggy-backed on a pull).
func (g *VerifAckRig) PullAck(follower ch.NodeID, ackOffset uint64) (error, []VerifReply) {
	var log []VerifReply
	g.arm(&log)
	_, err := g.r.applyLeaderPullAckOffset(g.rc, transport.PullRequest{
		ChannelKey: g.rc.state.Key, ChannelID: g.rc.state.ID, Epoch: g.rc.state.Epoch, LeaderEpoch: g.rc.state.LeaderEpoch,
		Follower: follower, NextOffset: ackOffset + 1, AckOffset: ackOffset, MaxBytes: 1}, false)
	g.rc.waiters = nil
	return err, log
}

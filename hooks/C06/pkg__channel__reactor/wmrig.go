//go:build verif

package reactor

import (
	ch "github.com/WuKongIM/WuKongIM/pkg/channel"
	"github.com/WuKongIM/WuKongIM/pkg/channel/replication"
	"github.com/WuKongIM/WuKongIM/pkg/channel/worker"
)

// VerifInstallOpID is the op id of the quorum install the rig pretends to have
// started (startQuorumInstall) at the current fence.
const VerifInstallOpID = ch.OpID(99)

// QuorumInstallResult drives handleQuorumInstallResult with one pending install
// (op id VerifInstallOpID, authority derived from the current fence, no write
// fence).  auth: 0 = the result names another authority, 1 = the pending
// authority, 2 = result.QuorumInstall is nil.  Returns whether the pending
// install was consumed and the error its future received.
func (g *VerifAckRig) QuorumInstallResult(fence ch.Fence, auth int, leo, hw uint64, resErr error) (bool, error) {
	st := g.rc.state
	id := replication.AuthorityID{ChannelEpoch: st.Epoch, LeaderTerm: st.LeaderEpoch, FenceVersion: 1}
	fut := NewFuture()
	g.rc.quorumInstall = &quorumInstallState{opID: VerifInstallOpID,
		authority: replication.Authority{Key: st.Key, ChannelID: st.ID, ID: id, Leader: st.Leader},
		futures:   []*Future{fut}}
	res := worker.Result{Kind: worker.TaskQuorumInstall, Fence: fence, Err: resErr}
	switch auth {
	case 0:
		res.QuorumInstall = &worker.QuorumInstallResult{Installed: replication.Installed{
			Authority: replication.AuthorityID{ChannelEpoch: st.Epoch, LeaderTerm: st.LeaderEpoch, FenceVersion: 2}, LEO: leo, HW: hw}}
	case 1:
		res.QuorumInstall = &worker.QuorumInstallResult{Installed: replication.Installed{Authority: id, LEO: leo, HW: hw}}
	}
	g.r.handleQuorumInstallResult(res)
	consumed := g.rc.quorumInstall == nil
	g.rc.quorumInstall = nil
	g.rc.quorumAuthority = replication.Authority{}
	if !consumed {
		return false, nil
	}
	return true, fut.Result().Err
}

// StoreCheckpointResult drives handleStoreCheckpointResult for a checkpoint that
// is neither the committed-, retention- nor lifecycle-owned one (op id 77).
func (g *VerifAckRig) StoreCheckpointResult(fence ch.Fence, withResult bool, hw uint64, resErr error) {
	res := worker.Result{Kind: worker.TaskStoreCheckpoint, Fence: fence, Err: resErr}
	if withResult {
		res.StoreCheckpoint = &worker.StoreCheckpointResult{Checkpoint: ch.Checkpoint{HW: hw}}
	}
	g.r.handleStoreCheckpointResult(res)
}

//go:build verif

package app

import (
	"reflect"
	"sync"
	"unsafe"
)

// VerifMessageIDs wraps the unexported node message-id allocator.
type VerifMessageIDs struct{ g *nodeMessageIDs }

func VerifNewMessageIDs(nodeID uint64) (*VerifMessageIDs, error) {
	g, err := newNodeMessageIDs(nodeID)
	if err != nil {
		return nil, err
	}
	return &VerifMessageIDs{g: g}, nil
}

func (v *VerifMessageIDs) Next() uint64                { return v.g.Next() }
func (v *VerifMessageIDs) SetFloor(floor uint64) error { return v.g.SetFloor(floor) }
func (v *VerifMessageIDs) Floor() uint64               { return v.g.floor.Load() }
func (v *VerifMessageIDs) Generate() uint64            { return uint64(v.g.node.Generate()) }

// Rewind makes the REAL Snowflake generator forget its last timestamp (as after a
// clock regression): the next Generate() restarts the per-millisecond step at 0
// and so re-emits ids it has already produced in the current millisecond.  The
// allocator has no generator seam (node is a concrete *snowflake.Node), so the
// generator's private `time` field is adjusted under its own mutex.  Returns
// false if the library's layout is not the expected one.
func (v *VerifMessageIDs) Rewind(ms int64) bool {
	t := reflect.TypeOf(v.g.node).Elem()
	tf, ok1 := t.FieldByName("time")
	mf, ok2 := t.FieldByName("mu")
	if !ok1 || !ok2 || tf.Type.Kind() != reflect.Int64 || mf.Type != reflect.TypeOf(sync.Mutex{}) {
		return false
	}
	p := unsafe.Pointer(v.g.node)
	mu := (*sync.Mutex)(unsafe.Add(p, mf.Offset))
	mu.Lock()
	*(*int64)(unsafe.Add(p, tf.Offset)) -= ms
	mu.Unlock()
	return true
}

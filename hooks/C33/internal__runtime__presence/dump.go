//go:build verif

package presence

import (
	"encoding/hex"
	"fmt"
	"sort"
	"strconv"
	"strings"
)

// VerifDump renders the complete authority state of the directory in a
// canonical (sorted) text form.  Read-only; used by the C33 harness after
// every operation.  Format (see /verif/lean/Driver/C33.lean):
//
//	D L=<local> T=<touch> E=<expired> || S <hs> <target> <nextID> | A r.. | U uid:k/k.. | P tok:route:k/k.. |
//	  O k=n.. | X k=n.. | B seen:k/k.. | K k=seen.. || S ... || H hs=seen@idx@same@n;.. ..
func VerifDump(d *Directory) string {
	var b strings.Builder
	fmt.Fprintf(&b, "D L=%d T=%d E=%d", d.localNodeID, d.touchRoutesTotal.Load(), d.expiredRoutesTotal.Load())
	type hsSlot struct {
		hs   uint16
		slot *authoritySlot
	}
	var slots []hsSlot
	for i := range d.shards {
		shard := &d.shards[i]
		shard.mu.RLock()
		for hs, slot := range shard.slots {
			slots = append(slots, hsSlot{hs, slot})
		}
		shard.mu.RUnlock()
	}
	sort.Slice(slots, func(i, j int) bool { return slots[i].hs < slots[j].hs })
	var heaps []string
	for _, e := range slots {
		s := e.slot
		fmt.Fprintf(&b, " || S %d %s %d", e.hs, VerifTargetString(s.target), s.nextID)
		// active
		b.WriteString(" | A")
		for _, k := range verifSortedKeys(s.active) {
			r := s.active[k]
			b.WriteString(" " + VerifRouteString(r))
			if makeRouteIdentityKey(r) != k {
				b.WriteString("!key=" + verifKeyString(k))
			}
		}
		// byUID
		b.WriteString(" | U")
		uids := make([]string, 0, len(s.byUID))
		for uid := range s.byUID {
			uids = append(uids, uid)
		}
		sort.Strings(uids)
		for _, uid := range uids {
			b.WriteString(" " + verifHex(uid) + ":" + verifKeyList(verifSortedKeys(s.byUID[uid])))
		}
		// pending
		b.WriteString(" | P")
		toks := make([]string, 0, len(s.pending))
		for tok := range s.pending {
			toks = append(toks, string(tok))
		}
		sort.Slice(toks, func(i, j int) bool {
			a, ea := strconv.ParseUint(toks[i], 10, 64)
			c, ec := strconv.ParseUint(toks[j], 10, 64)
			if ea == nil && ec == nil && a != c {
				return a < c
			}
			return toks[i] < toks[j]
		})
		for _, tok := range toks {
			p := s.pending[PendingRouteToken(tok)]
			b.WriteString(" " + tok + ":" + VerifRouteString(p.route) + ":" + verifKeyList(p.conflicts))
		}
		b.WriteString(" | O")
		for _, k := range verifSortedKeys(s.ownerSeq) {
			fmt.Fprintf(&b, " %s=%d", verifKeyString(k), s.ownerSeq[k])
		}
		b.WriteString(" | X")
		for _, k := range verifSortedKeys(s.tombstoneSeq) {
			fmt.Fprintf(&b, " %s=%d", verifKeyString(k), s.tombstoneSeq[k])
		}
		b.WriteString(" | B")
		seens := make([]int64, 0, len(s.expiryBySeen))
		for seen := range s.expiryBySeen {
			seens = append(seens, seen)
		}
		sort.Slice(seens, func(i, j int) bool { return seens[i] < seens[j] })
		for _, seen := range seens {
			bucket := s.expiryBySeen[seen]
			fmt.Fprintf(&b, " %d:%s", seen, verifKeyList(verifSortedKeys(bucket.keys)))
			if bucket.seenUnix != seen {
				fmt.Fprintf(&b, "!seen=%d", bucket.seenUnix)
			}
		}
		b.WriteString(" | K")
		for _, k := range verifSortedKeys(s.expiryByKey) {
			bucket := s.expiryByKey[k]
			if bucket == nil {
				fmt.Fprintf(&b, " %s=nil", verifKeyString(k))
				continue
			}
			fmt.Fprintf(&b, " %s=%d", verifKeyString(k), bucket.seenUnix)
		}
		// concrete heap array (judged, not compared with the model)
		var hs []string
		for i, bucket := range s.expiryHeap {
			same := 0
			if bucket != nil && s.expiryBySeen[bucket.seenUnix] == bucket {
				same = 1
			}
			if bucket == nil {
				hs = append(hs, "nil@0@0@0")
				continue
			}
			_ = i
			hs = append(hs, fmt.Sprintf("%d@%d@%d@%d", bucket.seenUnix, bucket.heapIndex, same, len(bucket.keys)))
		}
		if len(hs) == 0 {
			heaps = append(heaps, fmt.Sprintf("%d=-", e.hs))
		} else {
			heaps = append(heaps, fmt.Sprintf("%d=%s", e.hs, strings.Join(hs, ";")))
		}
	}
	b.WriteString(" || H")
	for _, h := range heaps {
		b.WriteString(" " + h)
	}
	return b.String()
}

func verifHex(s string) string {
	if s == "" {
		return "-"
	}
	return hex.EncodeToString([]byte(s))
}

// VerifTargetString renders hs,slot,leader,term,epoch,rev,aepoch.
func VerifTargetString(t RouteTarget) string {
	return fmt.Sprintf("%d,%d,%d,%d,%d,%d,%d", t.HashSlot, t.SlotID, t.LeaderNodeID, t.LeaderTerm, t.ConfigEpoch, t.RouteRevision, t.AuthorityEpoch)
}

// VerifRouteString renders uid,node,boot,seq,sess,dev,flag,level,listener,conn,seen.
func VerifRouteString(r Route) string {
	return fmt.Sprintf("%s,%d,%d,%d,%d,%s,%d,%d,%s,%d,%d", verifHex(r.UID), r.OwnerNodeID, r.OwnerBootID, r.OwnerSeq, r.SessionID,
		verifHex(r.DeviceID), r.DeviceFlag, r.DeviceLevel, verifHex(r.Listener), r.ConnectedUnix, r.LastSeenUnix)
}

func verifKeyString(k identityKey) string {
	return fmt.Sprintf("%s,%d,%d,%d", verifHex(k.uid), k.ownerNodeID, k.ownerBootID, k.sessionID)
}

func verifKeyList(ks []identityKey) string {
	if len(ks) == 0 {
		return "-"
	}
	out := make([]string, len(ks))
	for i, k := range ks {
		out[i] = verifKeyString(k)
	}
	return strings.Join(out, "/")
}

// verifKeyOrder is the harness' own canonical order (uid bytes, session, node, boot);
// deliberately not lessIdentityKey, so a change there shows up in the dump.
func verifKeyOrder(a, b identityKey) bool {
	if a.uid != b.uid {
		return a.uid < b.uid
	}
	if a.sessionID != b.sessionID {
		return a.sessionID < b.sessionID
	}
	if a.ownerNodeID != b.ownerNodeID {
		return a.ownerNodeID < b.ownerNodeID
	}
	return a.ownerBootID < b.ownerBootID
}

func verifSortedKeys[V any](m map[identityKey]V) []identityKey {
	ks := make([]identityKey, 0, len(m))
	for k := range m {
		ks = append(ks, k)
	}
	sort.Slice(ks, func(i, j int) bool { return verifKeyOrder(ks[i], ks[j]) })
	return ks
}

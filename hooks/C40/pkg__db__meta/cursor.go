//go:build verif

package meta

// VerifGetMessageEventCursor reads the durable per-message event cursor row
// (the table has no public getter).
func VerifGetMessageEventCursor(s *Shard, channelID string, channelType int64, clientMsgNo string) (uint64, bool, error) {
	cursor, ok, err := messageEventCursorTable.getByPrimaryKey(s.db, s.hashSlot, messageEventCursorPrimaryKey(channelID, channelType, clientMsgNo))
	if err != nil || !ok {
		return 0, ok, err
	}
	return cursor.LastMsgEventSeq, true, nil
}

//go:build verif

package cluster

import (
	"context"

	"github.com/WuKongIM/WuKongIM/pkg/cluster/control"
	"github.com/WuKongIM/WuKongIM/pkg/cluster/propose"
	"github.com/WuKongIM/WuKongIM/pkg/cluster/routing"
)

// VerifProposeFunc applies one encoded slot command for `key` and returns the FSM apply result.
type VerifProposeFunc func(ctx context.Context, key string, command []byte) ([]byte, error)

type verifProposer struct{ f VerifProposeFunc }

func (p verifProposer) Propose(ctx context.Context, req propose.Request) error {
	_, err := p.f(ctx, req.Key, req.Command)
	return err
}

func (p verifProposer) ProposeResult(ctx context.Context, req propose.Request) ([]byte, error) {
	return p.f(ctx, req.Key, req.Command)
}

// VerifNewMessageEventNode builds a started single-node Node (node 1 leads slot 1, which owns
// all `hashSlots` hash slots) whose only live parts are the router, the real message event
// stream cache and the given proposer seam.  Node.AppendMessageEvent then runs the real
// appendMessageEventLocal / appendMessageEventFinishLocal code.
func VerifNewMessageEventNode(hashSlots uint16, maxSessions int, f VerifProposeFunc) (*Node, error) {
	router := routing.NewRouter()
	snap := control.Snapshot{
		Revision:     1,
		ControllerID: 1,
		Nodes: []control.Node{
			{NodeID: 1, Addr: "127.0.0.1:1001", Roles: []control.Role{control.RoleData}, Status: control.NodeAlive},
		},
		Slots: []control.SlotAssignment{
			{SlotID: 1, DesiredPeers: []uint64{1}, ConfigEpoch: 1, PreferredLeader: 1},
		},
		HashSlots: control.HashSlotTable{Revision: 1, Count: hashSlots, Ranges: []control.HashSlotRange{{From: 0, To: hashSlots - 1, SlotID: 1}}},
	}
	if err := router.UpdateControlSnapshot(snap); err != nil {
		return nil, err
	}
	router.UpdateSlotLeaders([]routing.SlotStatus{{SlotID: 1, Leader: 1, LeaderTerm: 1}})
	n := &Node{proposer: verifProposer{f: f}, router: router}
	n.cfg.NodeID = 1
	n.messageEventStreamCache = newMessageEventStreamCache(maxSessions)
	n.started.Store(true)
	return n, nil
}

// VerifLoseMessageEventStreamCache simulates the loss of the leader's in-memory stream cache
// (process restart / leadership moved to a node with an empty cache).
func (n *Node) VerifLoseMessageEventStreamCache(maxSessions int) {
	n.messageEventStreamCache = newMessageEventStreamCache(maxSessions)
}

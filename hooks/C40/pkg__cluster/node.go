//go:build verif

package cluster

import (
	"context"
	"fmt"

	"github.com/WuKongIM/WuKongIM/pkg/cluster/control"
	"github.com/WuKongIM/WuKongIM/pkg/cluster/propose"
	"github.com/WuKongIM/WuKongIM/pkg/cluster/routing"
)

// VerifProposeFunc applies one encoded slot command for `key` and returns the FSM apply result.
type VerifProposeFunc func(ctx context.Context, key string, command []byte) ([]byte, error)

type verifProposer struct{ f VerifProposeFunc }

func (p verifProposer) Propose(ctx context.Context, req propose.Request) error {
	_, err := p.f(ctx, req.Key, req.Command)
	return err
}

func (p verifProposer) ProposeResult(ctx context.Context, req propose.Request) ([]byte, error) {
	return p.f(ctx, req.Key, req.Command)
}

// verifRouteSnapshot: two data nodes, two physical Slots (Slot 1 placed on node 1, Slot 2 on
// node 2); owners[h] in {1,2} is the Slot that owns hash slot h.
func verifRouteSnapshot(revision uint64, owners []uint32) (control.Snapshot, error) {
	if len(owners) == 0 {
		return control.Snapshot{}, fmt.Errorf("no hash slots")
	}
	var ranges []control.HashSlotRange
	for h, o := range owners {
		if o != 1 && o != 2 {
			return control.Snapshot{}, fmt.Errorf("bad owner %d", o)
		}
		if len(ranges) > 0 && ranges[len(ranges)-1].SlotID == o {
			ranges[len(ranges)-1].To = uint16(h)
			continue
		}
		ranges = append(ranges, control.HashSlotRange{From: uint16(h), To: uint16(h), SlotID: o})
	}
	return control.Snapshot{
		Revision:     revision,
		ControllerID: 1,
		Nodes: []control.Node{
			{NodeID: 1, Addr: "127.0.0.1:1001", Roles: []control.Role{control.RoleData}, Status: control.NodeAlive},
			{NodeID: 2, Addr: "127.0.0.1:1002", Roles: []control.Role{control.RoleData}, Status: control.NodeAlive},
		},
		Slots: []control.SlotAssignment{
			{SlotID: 1, DesiredPeers: []uint64{1, 2}, ConfigEpoch: 1, PreferredLeader: 1},
			{SlotID: 2, DesiredPeers: []uint64{1, 2}, ConfigEpoch: 1, PreferredLeader: 2},
		},
		HashSlots: control.HashSlotTable{Revision: revision, Count: uint16(len(owners)), Ranges: ranges},
	}, nil
}

// VerifNewMessageEventNode builds a started Node (local node id 1) whose live parts are the
// router, the real message event stream cache and the given proposer seam.  Initially Slot 1
// (led by node 1) owns all hash slots and Slot 2 is led by node 2.  Node.AppendMessageEvent
// then runs the real appendMessageEventLocal / appendMessageEventFinishLocal code.
func VerifNewMessageEventNode(hashSlots uint16, maxSessions int, f VerifProposeFunc) (*Node, error) {
	n := &Node{proposer: verifProposer{f: f}, router: routing.NewRouter()}
	n.cfg.NodeID = 1
	n.messageEventStreamCache = newMessageEventStreamCache(maxSessions)
	n.started.Store(true)
	owners := make([]uint32, hashSlots)
	for i := range owners {
		owners[i] = 1
	}
	if err := n.VerifUpdateRoute(1, 1, 2, owners); err != nil {
		return nil, err
	}
	return n, nil
}

// VerifUpdateRoute installs a new control snapshot and Slot leaders through the REAL
// updateRouteAuthorityTable path, i.e. the real publishRouteAuthorityTransitionLocked ->
// clearMessageEventStreamCacheForLostLocalAuthority invalidation runs on the before/after tables.
func (n *Node) VerifUpdateRoute(revision uint64, leader1, leader2 uint64, owners []uint32) error {
	snap, err := verifRouteSnapshot(revision, owners)
	if err != nil {
		return err
	}
	return n.updateRouteAuthorityTable(func() error {
		if err := n.router.UpdateControlSnapshot(snap); err != nil {
			return err
		}
		n.router.UpdateSlotLeaders([]routing.SlotStatus{
			{SlotID: 1, Leader: leader1, LeaderTerm: revision},
			{SlotID: 2, Leader: leader2, LeaderTerm: revision},
		})
		return nil
	})
}

// VerifLoseMessageEventStreamCache simulates a process restart of the leader (empty cache).
func (n *Node) VerifLoseMessageEventStreamCache(maxSessions int) {
	n.messageEventStreamCache = newMessageEventStreamCache(maxSessions)
}

// VerifSetMessageEventStreamCacheCapacity reconfigures maxSessions of the live stream cache
// (production: 50000) so that admission at capacity, eviction and backpressure can be reached.
func (n *Node) VerifSetMessageEventStreamCacheCapacity(maxSessions int) {
	c := n.messageEventStreamCache
	c.mu.Lock()
	c.maxSessions = maxSessions
	c.mu.Unlock()
}

//go:build verif

package core

// VerifInboundState reports, for one open connection, how many undecoded bytes
// the gateway keeps buffered (sessionState.inbound) and whether the session was
// closed.  A connection that is no longer registered counts as closed.  Add-only
// (C23 harness: the real onData buffer discipline is observed, not re-implemented).
func (s *Server) VerifInboundState(listener string, connID uint64) (buffered int, closed bool) {
	state := s.state(listener, connID)
	if state == nil {
		return 0, true
	}
	state.inboundMu.Lock()
	n := len(state.inbound)
	state.inboundMu.Unlock()
	return n, state.isClosed()
}

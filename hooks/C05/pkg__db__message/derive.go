//go:build verif

package message

import (
	channel "github.com/WuKongIM/WuKongIM/pkg/db/message/channelcompat"
	"github.com/WuKongIM/WuKongIM/pkg/quorumlog"
)

func verifRow(rc quorumlog.Record, noise uint8) messageRow {
	flags := noise &^ 4
	if rc.SyncOnce {
		flags |= 4
	}
	// fields that must NOT enter the digest carry noise
	return messageRow{MessageSeq: rc.Index, MessageID: rc.ID, FramerFlags: flags, Setting: rc.Setting,
		StreamFlag: noise, MsgKey: "k", Expire: uint64(noise), ClientSeq: uint64(noise) * 3, ClientMsgNo: rc.ClientMsgNo,
		StreamNo: "s", StreamID: uint64(noise), Timestamp: int64(noise), ServerTimestampMS: rc.ServerTimestampMS,
		ChannelID: "c", ChannelType: noise, Topic: "t", FromUID: rc.FromUID, PayloadHash: uint64(noise),
		PayloadSize: uint64(len(rc.Payload)), Payload: rc.Payload}
}

// VerifDeriveDurable drives deriveDurableProposalEntries (the store's construction site of quorumlog.Record).
func VerifDeriveDurable(manifest quorumlog.ProposalManifest, recs []quorumlog.Record, noise uint8) ([]quorumlog.EntryIdentity, bool) {
	rows := make([]messageRow, len(recs))
	records := make([]channel.Record, len(recs))
	for i, rc := range recs {
		rows[i] = verifRow(rc, noise+uint8(i))
		records[i] = channel.Record{Epoch: rc.Epoch, ID: ^rc.ID, Payload: []byte("not-the-row")}
	}
	return deriveDurableProposalEntries(manifest, records, rows)
}

// VerifBackupRowIdentity drives verifyBackupRowIdentity (the backup path's construction site).
func VerifBackupRowIdentity(entry quorumlog.EntryIdentity, rc quorumlog.Record, noise uint8) bool {
	return verifyBackupRowIdentity(entry, verifRow(rc, noise))
}

//go:build verif

package quorumlog

// VerifDigestProposalEntry exposes the unexported digest function (no guards).
func VerifDigestProposalEntry(entry EntryIdentity, record Record) EntryDigest {
	return digestProposalEntry(entry, record)
}

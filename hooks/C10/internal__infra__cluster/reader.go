//go:build verif

package cluster

import (
	"github.com/WuKongIM/WuKongIM/internal/usecase/message"
	channelstore "github.com/WuKongIM/WuKongIM/pkg/channel/store"
)

// VerifReadCommittedRequest exposes the sync query → committed read request mapping.
func VerifReadCommittedRequest(query message.ChannelMessageQuery, limit int) channelstore.ReadCommittedRequest {
	return readCommittedRequest(query, limit)
}

// VerifChannelMessagePageFromRead exposes the read result → sync page mapping.
func VerifChannelMessagePageFromRead(query message.ChannelMessageQuery, limit int, read channelstore.ReadCommittedResult) message.ChannelMessagePage {
	return channelMessagePageFromRead(query, limit, read)
}

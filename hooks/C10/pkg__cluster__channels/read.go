//go:build verif

package channels

import (
	"context"

	ch "github.com/WuKongIM/WuKongIM/pkg/channel"
	channelstore "github.com/WuKongIM/WuKongIM/pkg/channel/store"
)

// VerifReadLocalCommitted runs Service.readLocalCommitted on a bare service
// that only owns a store factory.
func VerifReadLocalCommitted(ctx context.Context, stores channelstore.Factory, read CommittedRead, retentionThroughSeq uint64, minISR int) (channelstore.ReadCommittedResult, error) {
	s := &Service{store: stores}
	return s.readLocalCommitted(ctx, read, retentionThroughSeq, minISR)
}

type verifMetaSource struct {
	fn func(ch.ChannelID) (ch.Meta, error)
}

func (m verifMetaSource) ResolveChannelMeta(_ context.Context, id ch.ChannelID) (ch.Meta, error) {
	return m.fn(id)
}

// VerifForwardCommittedReads runs the leader-side handler of a forwarded
// committed read (handleForwardCommittedReads) on a bare service that owns a
// store factory, a local node id and a metadata source.
func VerifForwardCommittedReads(ctx context.Context, stores channelstore.Factory, local ch.NodeID,
	meta func(ch.ChannelID) (ch.Meta, error), req CommittedReadsRequest) (CommittedReadsResponse, error) {
	s := &Service{store: stores, localNode: local, metaSource: verifMetaSource{fn: meta}}
	return s.handleForwardCommittedReads(ctx, req)
}

// VerifRoundTripCommittedReadsResponse sends a successful response through the
// RPC codec exactly as the transport does (encode on the leader, decode on the origin).
func VerifRoundTripCommittedReadsResponse(resp CommittedReadsResponse) (CommittedReadsResponse, error) {
	data, err := encodeRPCResult(kindCommittedReadsResponse, resp, nil)
	if err != nil {
		return CommittedReadsResponse{}, err
	}
	return decodeCommittedReadsResponse(data)
}

//go:build verif

package channels

import (
	"context"

	channelstore "github.com/WuKongIM/WuKongIM/pkg/channel/store"
)

// VerifReadLocalCommitted runs Service.readLocalCommitted on a bare service
// that only owns a store factory.
func VerifReadLocalCommitted(ctx context.Context, stores channelstore.Factory, read CommittedRead, retentionThroughSeq uint64, minISR int) (channelstore.ReadCommittedResult, error) {
	s := &Service{store: stores}
	return s.readLocalCommitted(ctx, read, retentionThroughSeq, minISR)
}

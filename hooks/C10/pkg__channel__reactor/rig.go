//go:build verif

package reactor

import (
	"context"
	"time"

	ch "github.com/WuKongIM/WuKongIM/pkg/channel"
	"github.com/WuKongIM/WuKongIM/pkg/channel/machine"
	"github.com/WuKongIM/WuKongIM/pkg/channel/store"
	"github.com/WuKongIM/WuKongIM/pkg/channel/worker"
)

type verifRetentionSink struct{ results chan worker.Result }

func (s *verifRetentionSink) Complete(r worker.Result) { s.results <- r }

// VerifRetentionRig drives the REAL retention path of a Reactor:
// handleApplyRetentionBoundary → submitStoreRetention / trySubmitRetentionCheckpoint
// → worker pools (runStoreRetention / runStoreCheckpoint on the given store factory)
// → handleStoreRetentionResult / handleStoreCheckpointResult, synchronously.
// Add-only: nothing here changes reactor behaviour.
type VerifRetentionRig struct {
	r     *Reactor
	apply *worker.Pool
	ckpt  *worker.Pool
	sink  *verifRetentionSink
}

func VerifNewRetentionRig(local ch.NodeID, stores store.Factory) (*VerifRetentionRig, error) {
	sink := &verifRetentionSink{results: make(chan worker.Result, 16)}
	deps := worker.Deps{LocalNode: local, Stores: stores}
	apply, err := worker.NewPool(worker.PoolConfig{Name: "verif-store-apply", Workers: 1, QueueSize: 8}, deps, sink)
	if err != nil {
		return nil, err
	}
	ckpt, err := worker.NewPool(worker.PoolConfig{Name: "verif-store-checkpoint", Workers: 1, QueueSize: 8}, deps, sink)
	if err != nil {
		_ = apply.Close()
		return nil, err
	}
	r := NewReactor(ReactorConfig{LocalNode: local, Pools: &worker.Pools{StoreApply: apply, StoreCheckpoint: ckpt}})
	return &VerifRetentionRig{r: r, apply: apply, ckpt: ckpt, sink: sink}, nil
}

func (g *VerifRetentionRig) Close() {
	_ = g.apply.Close()
	_ = g.ckpt.Close()
}

// Apply runs one ApplyRetentionBoundary event on a loaded runtime channel built
// around state; state is mutated by the reactor exactly as in production.
func (g *VerifRetentionRig) Apply(state *machine.ChannelState, cs store.ChannelStore, req ch.RetentionApplyRequest) (ch.RetentionApplyResult, error) {
	rc := &runtimeChannel{state: state, store: cs}
	g.r.channels[state.Key] = rc
	defer delete(g.r.channels, state.Key)
	fut := NewFuture()
	g.r.handleApplyRetentionBoundary(Event{Kind: EventApplyRetentionBoundary, Key: state.Key, Context: context.Background(), RetentionApply: req, Future: fut})
	deadline := time.After(60 * time.Second)
	for len(rc.retentionWaiters) > 0 || rc.retentionCheckpointOp != 0 {
		select {
		case res := <-g.sink.results:
			switch res.Kind {
			case worker.TaskStoreRetention:
				g.r.handleStoreRetentionResult(res)
			case worker.TaskStoreCheckpoint:
				g.r.handleStoreCheckpointResult(res)
			}
		case <-deadline:
			return ch.RetentionApplyResult{}, context.DeadlineExceeded
		}
	}
	out := fut.Result()
	return out.RetentionApply, out.Err
}

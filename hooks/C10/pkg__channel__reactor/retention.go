//go:build verif

package reactor

import "github.com/WuKongIM/WuKongIM/pkg/channel/machine"

// VerifRetentionTrimDecision exposes the physical-trim gate.
func VerifRetentionTrimDecision(state *machine.ChannelState, throughSeq uint64) (bool, string) {
	return retentionTrimDecision(state, throughSeq)
}

// VerifMinISRMatchOffset exposes the ISR progress minimum used by the gate.
func VerifMinISRMatchOffset(state *machine.ChannelState) uint64 { return minISRMatchOffset(state) }

//go:build verif

package worker

import (
	"context"

	ch "github.com/WuKongIM/WuKongIM/pkg/channel"
	"github.com/WuKongIM/WuKongIM/pkg/channel/store"
)

// VerifRunStoreRetention runs the worker's store retention task (adopt the
// logical boundary, trim when allowed, reload the retention state).
func VerifRunStoreRetention(ctx context.Context, stores store.Factory, key ch.ChannelKey, id ch.ChannelID, throughSeq uint64,
	trimAllowed bool, blockedReason string, opts store.RetentionTrimOptions) (StoreRetentionResult, error) {
	res := runStoreRetention(ctx, Deps{Stores: stores}, Task{
		Kind:  TaskStoreRetention,
		Fence: ch.Fence{ChannelKey: key},
		StoreRetention: &StoreRetentionTask{ChannelID: id, ThroughSeq: throughSeq, TrimAllowed: trimAllowed,
			BlockedReason: blockedReason, Options: opts},
	})
	if res.StoreRetention == nil {
		return StoreRetentionResult{}, res.Err
	}
	return *res.StoreRetention, res.Err
}

//go:build verif

package meta

import (
	"encoding/hex"

	"github.com/WuKongIM/WuKongIM/pkg/db/internal/engine"
	"github.com/cockroachdb/pebble/v2/vfs"
)

// VerifOpenFS opens a MetaDB on an injected Pebble file system.
func VerifOpenFS(path string, fs vfs.FS) (*MetaDB, func() error, error) {
	eng, err := engine.VerifOpenFS(path, engine.Options{CacheSize: 4 << 20, MemTableSize: 1 << 20}, fs)
	if err != nil {
		return nil, nil, err
	}
	db := NewDB(eng)
	return db, func() error { db.close(); return eng.Close() }, nil
}

// VerifDumpSlots renders every raw key/value pair of the given hash slots as
// `hexkey=hexvalue`, in key order; backupOnly restricts to the spans a backup
// snapshot covers (hashSlotBackupDataSpans), otherwise all data spans.
func VerifDumpSlots(db *MetaDB, hashSlots []uint16, backupOnly bool) ([]string, error) {
	var out []string
	for _, hs := range hashSlots {
		spans := hashSlotAllDataSpans(HashSlot(hs))
		if backupOnly {
			spans = hashSlotBackupDataSpans(HashSlot(hs))
		}
		for _, span := range spans {
			it, err := db.engine.NewIter(engine.Span{Start: span.Start, End: span.End}, engine.IterOptions{})
			if err != nil {
				return nil, err
			}
			for ok := it.First(); ok; ok = it.Next() {
				v, err := it.Value()
				if err != nil {
					it.Close()
					return nil, err
				}
				out = append(out, hex.EncodeToString(it.Key())+"="+hex.EncodeToString(v))
			}
			if err := it.Error(); err != nil {
				it.Close()
				return nil, err
			}
			it.Close()
		}
	}
	return out, nil
}

// VerifCountAll counts every key of the engine (to prove a rejected import left nothing behind).
func VerifCountAll(db *MetaDB) (int, error) {
	it, err := db.engine.NewIter(engine.Span{}, engine.IterOptions{})
	if err != nil {
		return 0, err
	}
	defer it.Close()
	n := 0
	for ok := it.First(); ok; ok = it.Next() {
		n++
	}
	return n, it.Error()
}

// VerifDumpAll renders every raw key/value pair of the engine (hex), in key order.
func VerifDumpAll(db *MetaDB) ([]string, error) {
	it, err := db.engine.NewIter(engine.Span{}, engine.IterOptions{})
	if err != nil {
		return nil, err
	}
	defer it.Close()
	var out []string
	for ok := it.First(); ok; ok = it.Next() {
		v, err := it.Value()
		if err != nil {
			return nil, err
		}
		out = append(out, hex.EncodeToString(it.Key())+"="+hex.EncodeToString(v))
	}
	return out, it.Error()
}

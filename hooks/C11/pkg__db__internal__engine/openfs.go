//go:build verif

package engine

import (
	"github.com/WuKongIM/WuKongIM/pkg/db/internal/dberrors"
	"github.com/cockroachdb/pebble/v2"
	"github.com/cockroachdb/pebble/v2/vfs"
)

// VerifOpenFS is Open with Pebble running on an injected file system (the
// crash-simulation seam C09/C14 ask for).  Everything else is what Open does:
// the same pebbleOptions(opts) are used.
func VerifOpenFS(path string, opts Options, fs vfs.FS) (*DB, error) {
	if path == "" {
		return nil, dberrors.ErrInvalidArgument
	}
	popts := pebbleOptions(opts)
	popts.FS = fs
	pdb, err := pebble.Open(path, popts)
	if err != nil {
		return nil, err
	}
	return &DB{pdb: pdb}, nil
}

//go:build verif

package meta

// VerifCompatDB wraps an already open MetaDB (e.g. db.OpenNodeStore(...).Meta()) in the
// compatibility handle the slot FSM and WriteBatch callers use, so that every C15 op kind
// (Shard, Batch, WriteBatch, slot FSM) hits the SAME store.  The caller keeps ownership of
// the engine and must not Close the returned handle.
func VerifCompatDB(m *MetaDB) *DB {
	if m == nil {
		return nil
	}
	return &DB{meta: m, engine: m.engine}
}

// VerifLockHashSlot takes the hash-slot mutex every mutating Shard/Batch method serialises on and
// returns its unlock function (used to steer the concurrent C15 op: queue writers behind the lock).
func VerifLockHashSlot(m *MetaDB, hashSlot HashSlot) func() {
	return m.lockHashSlots([]HashSlot{hashSlot})
}

//go:build verif

package delivery

import (
	"encoding/hex"
	"fmt"
	"sort"
	"strings"
)

// VerifAckToken builds a bind token with the given id (the harness replays
// tokens by number, including stale and never-issued ones).
func VerifAckToken(id uint64) AckBindToken { return AckBindToken{id: id} }

// VerifAckTokenID exposes the id of an opaque bind token.
func VerifAckTokenID(t AckBindToken) uint64 { return t.id }

// VerifAckNext returns the allocator value (id of the most recently issued token).
func VerifAckNext(t *AckTracker) uint64 { return t.nextBindToken.Load() }

func verifAckHex(s string) string {
	if s == "" {
		return "-"
	}
	return hex.EncodeToString([]byte(s))
}

// VerifPendString renders uid,sess,msg,seq,chan,ctype,deliveredAt.
func VerifPendString(p PendingRecvAck) string {
	return fmt.Sprintf("%s,%d,%d,%d,%s,%d,%d", verifAckHex(p.UID), p.SessionID, p.MessageID, p.MessageSeq,
		verifAckHex(p.ChannelID), p.ChannelType, p.DeliveredAt)
}

// VerifAckDump renders the complete tracker state canonically (read-only):
//
//	C=<pendingCount> N=<nextBindToken> | E key:committed:primary:pending:tok@pend;tok@pend .. | S uid,sess:msg/msg ..
//
// entries sorted by (uid, session, message); extra attempts in slice order; the
// bySession index sorted.  `!shard` marks an entry stored in the wrong shard.
func VerifAckDump(t *AckTracker) string {
	var b strings.Builder
	fmt.Fprintf(&b, "C=%d N=%d", t.pendingCount.Load(), t.nextBindToken.Load())
	type ent struct {
		k ackMessageKey
		e ackTrackerEntry
		i int
	}
	var ents []ent
	type sess struct {
		k    ackSessionKey
		msgs []uint64
	}
	var sessions []sess
	for i := range t.shards {
		shard := &t.shards[i]
		shard.mu.Lock()
		for k, e := range shard.byMessage {
			ents = append(ents, ent{k, e, i})
		}
		for k, m := range shard.bySession {
			s := sess{k: k}
			for id := range m {
				s.msgs = append(s.msgs, id)
			}
			sort.Slice(s.msgs, func(a, c int) bool { return s.msgs[a] < s.msgs[c] })
			sessions = append(sessions, s)
		}
		shard.mu.Unlock()
	}
	sort.Slice(ents, func(i, j int) bool {
		a, c := ents[i].k, ents[j].k
		if a.uid != c.uid {
			return a.uid < c.uid
		}
		if a.sessionID != c.sessionID {
			return a.sessionID < c.sessionID
		}
		return a.messageID < c.messageID
	})
	sort.Slice(sessions, func(i, j int) bool {
		a, c := sessions[i].k, sessions[j].k
		if a.uid != c.uid {
			return a.uid < c.uid
		}
		return a.sessionID < c.sessionID
	})
	b.WriteString(" | E")
	for _, x := range ents {
		committed := 0
		if x.e.committed {
			committed = 1
		}
		fmt.Fprintf(&b, " %s,%d,%d:%d:%d:%s:", verifAckHex(x.k.uid), x.k.sessionID, x.k.messageID, committed, x.e.primary.id, VerifPendString(x.e.pending))
		if len(x.e.extraAttempts) == 0 {
			b.WriteString("-")
		}
		for j, a := range x.e.extraAttempts {
			if j > 0 {
				b.WriteString(";")
			}
			fmt.Fprintf(&b, "%d@%s", a.token.id, VerifPendString(a.pending))
		}
		if t.shardIndex(x.k.sessionID) != x.i {
			b.WriteString("!shard")
		}
	}
	b.WriteString(" | S")
	for _, s := range sessions {
		ms := make([]string, len(s.msgs))
		for i, m := range s.msgs {
			ms[i] = fmt.Sprintf("%d", m)
		}
		j := "-"
		if len(ms) > 0 {
			j = strings.Join(ms, "/")
		}
		fmt.Fprintf(&b, " %s,%d:%s", verifAckHex(s.k.uid), s.k.sessionID, j)
	}
	return b.String()
}

//go:build verif

package core

import (
	"context"

	gatewaytypes "github.com/WuKongIM/WuKongIM/pkg/gateway/types"
	goruntimeregistry "github.com/WuKongIM/WuKongIM/pkg/goroutine"
	"github.com/WuKongIM/WuKongIM/pkg/workqueue"
)

// VerifObserveSendMailbox re-creates the SEND executor's mailbox with exactly the
// configuration newSendExecutor uses plus a workqueue observer (the C28 harness uses
// the observer's "worker" callback as a scheduling point between a shard drain's last
// empty check and finishShardDrain). Add-only; call right after Start, before traffic.
func (s *Server) VerifObserveSendMailbox(obs workqueue.ShardedMailboxObserver) bool {
	rt := s.asyncRuntime()
	if rt == nil || rt.send == nil || rt.send.mailbox == nil {
		return false
	}
	e := rt.send
	opts := gatewaytypes.NormalizeRuntimeOptions(s.options.Runtime)
	limits := gatewaySendBatchLimits(s)
	mailbox, err := workqueue.NewShardedMailbox[asyncDispatchTask](workqueue.ShardedMailboxConfig{
		Name:              "gateway-send",
		Goroutines:        opts.Goroutines,
		Task:              goruntimeregistry.TaskGatewayAsyncDispatch,
		Shards:            e.shards,
		Workers:           e.workers,
		QueueSizePerShard: e.shardCapacity,
		BatchMaxItems:     limits.maxRecords,
		BatchMaxWait:      limits.maxWait,
		ReleaseTimeout:    opts.AsyncPoolReleaseTimeout,
		Observer:          obs,
	}, e.handleMailboxBatch)
	if err != nil {
		return false
	}
	old := e.mailbox
	e.mailbox = mailbox
	_ = old.Close(context.Background())
	return true
}

//go:build verif

package core

import "github.com/WuKongIM/WuKongIM/pkg/gateway/session"

// VerifWrapSession replaces the session object of one open connection by
// wrap(session) (the C28 harness installs a session whose ID() can be gated:
// sendExecutor.submit consults ID() for shard selection after the admission
// fence). Add-only; must be called before any traffic on that connection.
func (s *Server) VerifWrapSession(listener string, connID uint64, wrap func(session.Session) session.Session) bool {
	state := s.state(listener, connID)
	if state == nil || wrap == nil {
		return false
	}
	state.session = wrap(state.session)
	return true
}

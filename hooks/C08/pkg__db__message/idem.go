//go:build verif

package message

// VerifIdempotencyHashes returns the two hashes the negative membership filter
// derives for the idempotency index key of (fromUID, clientMsgNo) in the given
// channel -- computed with the very key builder and hash function the append
// path uses (the maphash seeds are process-random, so the model takes the pair
// as an input).
func VerifIdempotencyHashes(key ChannelKey, id ChannelID, fromUID, clientMsgNo string) (uint64, uint64) {
	cache := newAppendKeyCache(key, id)
	return idempotencyMembershipHashes(cache.idempotencyIndexKeyTo(nil, fromUID, clientMsgNo))
}

// VerifIdempotencyFilterShape exposes the filter constants (words, capacity, hash count).
func VerifIdempotencyFilterShape() (int, int, int, int) {
	return idempotencyMembershipPrimaryWords, idempotencyMembershipOverflowWords, idempotencyMembershipPrimaryCapacity, idempotencyMembershipHashCount
}

//go:build verif

package channelappend

import (
	"context"

	"github.com/WuKongIM/WuKongIM/internal/contracts/onlinedelivery"
)

// VerifDispatchRecipientPlans exposes dispatchRecipientPlans (the code that packs
// authority-grouped recipients into bounded Recipient Delivery Plans and hands
// them to Online Delivery) for the C31 harness. Add-only wrapper.
func VerifDispatchRecipientPlans(ctx context.Context, mode onlinedelivery.Mode, event CommittedEnvelope,
	targets []RecipientAuthorityTarget, recipients [][]Recipient, batchSize int, enqueuer OnlineDeliveryEnqueuer) error {
	groups := make([]recipientAuthorityGroup, len(targets))
	order := make([]int, 0, len(targets))
	for i := range targets {
		groups[i] = recipientAuthorityGroup{target: targets[i], recipientCount: len(recipients[i]), recipients: recipients[i], deliverySeen: len(recipients[i]) > 0}
		if len(recipients[i]) > 0 {
			order = append(order, i)
		}
	}
	return dispatchRecipientPlans(ctx, mode, event, groups, order, batchSize, enqueuer)
}

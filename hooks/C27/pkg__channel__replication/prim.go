//go:build verif

package replication

// Exported wrappers around the exchange codec's private primitives (C27).

func VerifAppendUvarint(dst []byte, v uint64) []byte { return appendCodecUvarint(dst, v) }
func VerifAppendBytes(dst []byte, v []byte) []byte   { return appendCodecBytes(dst, v) }
func VerifAppendBool(dst []byte, v bool) []byte      { return appendCodecBool(dst, v) }
func VerifAppendSliceCount(dst []byte, count int, isNil bool) []byte {
	return appendCodecSliceCount(dst, count, isNil)
}

// VerifCursor runs one cursor primitive at offset 0 of data.
//   kind: "uvarint" | "varint" | "bytes" | "bool" | "byte" | "count" | "slicecount" | "fixed32"
// Returns the value rendered canonically, the offset afterwards and ok.
func VerifCursor(kind string, data []byte, maximum int) (u uint64, i int64, b []byte, flag bool, offset int, ok bool) {
	c := exchangeCursor{data: data}
	switch kind {
	case "uvarint":
		u, ok = c.uvarint()
	case "varint":
		i, ok = c.varint()
	case "bytes":
		b, ok = c.bytes()
	case "bool":
		flag, ok = c.boolean()
	case "byte":
		var x byte
		x, ok = c.byte()
		u = uint64(x)
	case "count":
		var n int
		n, ok = c.count(maximum)
		u = uint64(n)
	case "slicecount":
		var n int
		n, flag, ok = c.sliceCount(maximum)
		u = uint64(n)
	case "fixed32":
		var x [32]byte
		x, ok = c.fixed32()
		b = x[:]
	}
	return u, i, b, flag, c.offset, ok
}

// VerifBounds exposes the wire-level bounds the codec declares.
func VerifBounds() (items, bytes, probeIndexes, proposals int) {
	return MaxExchangeBatchItems, MaxExchangeBatchBytes, maxRecoveryProbeIndexes, maxRecoveryReplacementProposals
}

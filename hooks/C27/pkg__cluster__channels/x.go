//go:build verif

package channels

import (
	"reflect"

	ch "github.com/WuKongIM/WuKongIM/pkg/channel"
	channeltransport "github.com/WuKongIM/WuKongIM/pkg/channel/transport"
)

// VerifCodec is one request/response codec of this package (C27 harness).
type VerifCodec struct {
	Name   string
	Type   reflect.Type
	Encode func(v any) ([]byte, error)
	Decode func(b []byte) (any, error)
}

func verifEntry[T any](name string, enc func(T) ([]byte, error), dec func([]byte) (T, error)) VerifCodec {
	var zero T
	return VerifCodec{Name: name, Type: reflect.TypeOf(zero),
		Encode: func(v any) ([]byte, error) { return enc(v.(T)) },
		Decode: func(b []byte) (any, error) { return dec(b) }}
}

// VerifCodecs lists every payload codec of codec.go with its real encoder and decoder.
func VerifCodecs() []VerifCodec {
	return []VerifCodec{
		verifEntry("pull_request", EncodePullRequest, DecodePullRequest),
		verifEntry("pull_response", encodePullResponse, decodePullResponse),
		verifEntry("pull_batch_request", encodePullBatchRequest, decodePullBatchRequest),
		verifEntry("pull_batch_response", encodePullBatchResponse, decodePullBatchResponse),
		verifEntry("ack_request", encodeAckRequest, decodeAckRequest),
		verifEntry("pull_hint_request", encodePullHintRequest, decodePullHintRequest),
		verifEntry("pull_hint_batch_request", encodePullHintBatchRequest, decodePullHintBatchRequest),
		verifEntry("pull_hint_batch_response", encodePullHintBatchResponse, decodePullHintBatchResponse),
		verifEntry("notify_request", encodeNotifyRequest, decodeNotifyRequest),
		verifEntry("append_request", encodeAppendRequest, decodeAppendRequest),
		verifEntry("append_response", encodeAppendResponse, decodeAppendResponse),
		verifEntry("append_batch_request", encodeAppendBatchRequest, decodeAppendBatchRequest),
		verifEntry("append_batch_response", encodeAppendBatchResponse, decodeAppendBatchResponse),
		verifEntry("last_visible_request", encodeLastVisibleRequest, decodeLastVisibleRequest),
		verifEntry("last_visible_response", encodeLastVisibleResponse, decodeLastVisibleResponse),
		verifEntry("conversation_heads_request", encodeConversationHeadsRequest, decodeConversationHeadsRequest),
		verifEntry("conversation_heads_response", encodeConversationHeadsResponse, decodeConversationHeadsResponse),
		verifEntry("committed_reads_request", func(r CommittedReadsRequest) ([]byte, error) {
			return encodeCommittedReadsRequestVersion(r, codecVersion)
		}, decodeCommittedReadsRequest),
		verifEntry("committed_reads_response", func(r CommittedReadsResponse) ([]byte, error) {
			return encodeRPCResult(kindCommittedReadsResponse, r, nil)
		}, decodeCommittedReadsResponse),
	}
}

// VerifRPCError encodes err as an RPC result of the pull-response kind and decodes it again.
func VerifRPCError(err error) ([]byte, error, error) {
	b, encErr := encodeRPCResult(kindPullResponse, nil, err)
	if encErr != nil {
		return nil, nil, encErr
	}
	var resp channeltransport.PullResponse
	return b, decodeRPCResult(b, kindPullResponse, &resp), nil
}

var _ = ch.ErrNotLeader

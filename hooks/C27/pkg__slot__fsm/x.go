//go:build verif

package fsm

import (
	"fmt"
	"reflect"
	"unsafe"
)

// VerifDecodeCommand runs the package's private decodeCommand and returns the
// dynamic type name of the decoded command plus the values of its fields (in
// declaration order), so that a harness can compare them with what it encoded.
func VerifDecodeCommand(data []byte) (string, []any, error) {
	cmd, err := decodeCommand(data)
	if err != nil {
		return "", nil, err
	}
	v := reflect.ValueOf(cmd)
	name := fmt.Sprintf("%T", cmd)
	if v.Kind() == reflect.Ptr {
		if v.IsNil() {
			return name, nil, nil
		}
		v = v.Elem()
	}
	if v.Kind() != reflect.Struct {
		return name, []any{cmd}, nil
	}
	if !v.CanAddr() {
		c := reflect.New(v.Type()).Elem()
		c.Set(v)
		v = c
	}
	var fields []any
	for i := 0; i < v.NumField(); i++ {
		f := v.Field(i)
		fields = append(fields, reflect.NewAt(f.Type(), unsafe.Pointer(f.UnsafeAddr())).Elem().Interface())
	}
	return name, fields, nil
}

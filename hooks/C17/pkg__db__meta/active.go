//go:build verif

package meta

// VerifChannelMigrationActiveIndexRaw returns the raw value of the active-task
// index entry of a channel (the public getter filters it through the task row).
func (s *ShardStore) VerifChannelMigrationActiveIndexRaw(channelID string, channelType int64) (string, bool, error) {
	value, ok, err := s.shard.db.get(encodeChannelMigrationActiveIndexKey(s.hashSlot, channelID, channelType))
	return string(value), ok, err
}

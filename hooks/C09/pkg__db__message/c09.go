//go:build verif

package message

import (
	"bytes"
	"encoding/binary"
	"encoding/hex"
	"errors"
	"sync/atomic"
	"fmt"
	"os"
	"strconv"
	"strings"

	"github.com/WuKongIM/WuKongIM/pkg/db/internal/commit"
	"github.com/WuKongIM/WuKongIM/pkg/db/internal/engine"
	"github.com/WuKongIM/WuKongIM/pkg/db/internal/keycodec"
	channel "github.com/WuKongIM/WuKongIM/pkg/db/message/channelcompat"
	"github.com/cockroachdb/pebble/v2/vfs"
)

var verifSmallEngine = os.Getenv("VERIF_C09_BIG_ENGINE") == ""

// VerifOpenFS is OpenWithLogger(path, nil) on an injected Pebble file system.
func VerifOpenFS(path string, fs vfs.FS) (*Engine, error) {
	opts := messageEngineOptions(nil)
	if verifSmallEngine {
		// tuning only (cache / memtable sizes): a crash harness opens hundreds of engines
		opts.CacheSize = 4 << 20
		opts.MemTableSize = 1 << 20
		opts.CompactionDebtConcurrencyBytes = 0
	}
	eng, err := engine.VerifOpenFS(path, opts, fs)
	if err != nil {
		return nil, err
	}
	cfg := effectiveCommitCoordinatorConfig(CommitCoordinatorConfig{})
	return &Engine{
		db:        NewDB(eng),
		engine:    eng,
		commitCfg: cfg,
		committer: commit.NewCoordinator(eng, commitCoordinatorConfig(cfg)),
	}, nil
}

// VerifCompatRecord builds the compatibility record the channel runtime hands
// to ChannelStore appends (compatibilityRecordFromRow is the production encoder).
func VerifCompatRecord(id uint64, from, clientMsgNo string, flags uint8, payload []byte, serverTS int64, chID string, chType uint8, epoch uint64) (channel.Record, error) {
	rec, err := compatibilityRecordFromRow(messageRow{
		MessageID: id, FromUID: from, ClientMsgNo: clientMsgNo, FramerFlags: flags, Payload: payload,
		ServerTimestampMS: serverTS, ChannelID: chID, ChannelType: chType,
	})
	if err != nil {
		return channel.Record{}, err
	}
	rec.Index = 0
	rec.Epoch = epoch
	return rec, nil
}

func verifTok(prefix, s string) string {
	if s == "" {
		return "0"
	}
	if strings.HasPrefix(s, prefix) {
		if n, err := strconv.ParseUint(s[len(prefix):], 10, 63); err == nil && n > 0 && prefix+strconv.FormatUint(n, 10) == s {
			return strconv.FormatUint(n, 10)
		}
	}
	return "?" + hex.EncodeToString([]byte(s))
}

func verifCmdTok(id [32]byte) string {
	for i := 8; i < 32; i++ {
		if id[i] != 0xC9 {
			return "?" + hex.EncodeToString(id[:])
		}
	}
	return strconv.FormatUint(binary.BigEndian.Uint64(id[:8]), 10)
}

// VerifDump renders EVERY key/value pair of the engine in a canonical typed
// form (one string per pair, unsorted).  chKeys[i] is channel number i+1.
// Strings are rendered as the numeric tokens the harness uses ("u7" -> 7,
// "c3" -> 3, "p9" -> 9, "" -> 0); anything else is rendered `?hex` or `X.hex`
// and therefore can never equal a model entry.
func VerifDump(e *Engine, chKeys []string) ([]string, error) {
	e.mu.Lock()
	eng := e.engine
	e.mu.Unlock()
	if eng == nil {
		return nil, fmt.Errorf("closed")
	}
	it, err := eng.NewIter(engine.Span{}, engine.IterOptions{})
	if err != nil {
		return nil, err
	}
	defer it.Close()
	var out []string
	for ok := it.First(); ok; ok = it.Next() {
		k := it.Key()
		v, err := it.Value()
		if err != nil {
			return nil, err
		}
		if s := verifRender(chKeys, k, v); s != "" {
			out = append(out, s)
		}
	}
	return out, it.Error()
}

func verifRender(chKeys []string, k, v []byte) string {
	if bytes.Equal(k, encodeGlobalLatestIndexStateKey()) {
		if len(v) == 1 && v[0] == latestMessageIndexVersion {
			return "" // written once by NewDB at first open; not part of any channel mutation
		}
		return "X." + hex.EncodeToString(k)
	}
	if id, ok := decodeGlobalMessageIDIndexKey(k); ok {
		ck, seq, err := decodeGlobalMessageIDIndexValue(v)
		if err != nil {
			return fmt.Sprintf("G.%d=?", id)
		}
		c := 0
		for i, key := range chKeys {
			if string(ck) == key {
				c = i + 1
			}
		}
		return fmt.Sprintf("G.%d=%d.%d", id, c, seq)
	}
	if ck, ok := decodeCatalogKey(k); ok {
		for i, key := range chKeys {
			if string(ck) == key {
				id, err := decodeCatalogValue(v)
				if err != nil || id.ID != fmt.Sprintf("ch%d", i+1) || id.Type != 2 {
					return fmt.Sprintf("A.%d=?", i+1)
				}
				return fmt.Sprintf("A.%d=1", i+1)
			}
		}
	}
	for i, key := range chKeys {
		ck := ChannelKey(key)
		c := i + 1
		if !bytes.HasPrefix(k, encodeMessageChannelPartitionPrefix(ck)) {
			continue
		}
		if seq, fam, ok := decodeMessageRowKey(ck, k); ok {
			var row messageRow
			row.MessageSeq = seq
			if fam != messageHeaderFamilyID {
				return fmt.Sprintf("R.%d.%d=?family%d", c, seq, fam)
			}
			if err := decodeMessageHeader(k, v, &row); err != nil {
				return fmt.Sprintf("R.%d.%d=?decode", c, seq)
			}
			if row.ChannelID != fmt.Sprintf("ch%d", c) || row.ChannelType != 2 || row.PayloadHash != hashPayloadOrZero(row.Payload) {
				return fmt.Sprintf("R.%d.%d=?fields", c, seq)
			}
			return fmt.Sprintf("R.%d.%d=%d.%s.%s.%d.%s", c, seq, row.MessageID, verifTok("u", row.FromUID), verifTok("c", row.ClientMsgNo), row.FramerFlags, verifTok("p", string(row.Payload)))
		}
		if p := encodeMessageIndexPrefix(ck, messageIndexIDClientMsgNo); bytes.HasPrefix(k, p) {
			cno, rest, err := keycodec.ReadString(k[len(p):])
			if err != nil || len(rest) != 8 {
				return "X." + hex.EncodeToString(k)
			}
			val, err := decodeMessageIDIndexValue(v)
			if err != nil {
				return fmt.Sprintf("C.%d.%s.%d=?", c, verifTok("c", cno), binary.BigEndian.Uint64(rest))
			}
			return fmt.Sprintf("C.%d.%s.%d=%d", c, verifTok("c", cno), binary.BigEndian.Uint64(rest), val)
		}
		if p := encodeMessageIndexPrefix(ck, messageIndexIDFromUIDClientMsgNo); bytes.HasPrefix(k, p) {
			cno, rest, err := keycodec.ReadString(k[len(p):])
			if err != nil {
				return "X." + hex.EncodeToString(k)
			}
			from, rest2, err := keycodec.ReadString(rest)
			if err != nil || len(rest2) != 0 {
				return "X." + hex.EncodeToString(k)
			}
			hit, err := decodeIdempotencyIndexValue(v)
			if err != nil {
				return fmt.Sprintf("I.%d.%s.%s=?", c, verifTok("u", from), verifTok("c", cno))
			}
			return fmt.Sprintf("I.%d.%s.%s=%d.%d", c, verifTok("u", from), verifTok("c", cno), hit.MessageSeq, hit.MessageID)
		}
		if p := encodeMessageIndexPrefix(ck, messageIndexIDFromUIDMessageSeq); bytes.HasPrefix(k, p) {
			from, rest, err := keycodec.ReadString(k[len(p):])
			if err != nil || len(rest) != 8 {
				return "X." + hex.EncodeToString(k)
			}
			val, err := decodeMessageIDIndexValue(v)
			if err != nil {
				return fmt.Sprintf("S.%d.%s.%d=?", c, verifTok("u", from), binary.BigEndian.Uint64(rest))
			}
			return fmt.Sprintf("S.%d.%s.%d=%d", c, verifTok("u", from), binary.BigEndian.Uint64(rest), val)
		}
		if bytes.Equal(k, encodeRetentionStateKey(ck)) {
			st, err := decodeRetentionState(v)
			if err != nil {
				return fmt.Sprintf("T.%d=?", c)
			}
			return fmt.Sprintf("T.%d=%d.%d.%d", c, st.LocalRetentionThroughSeq, st.PhysicalRetentionThroughSeq, st.RetainedMaxSeq)
		}
		if bytes.Equal(k, encodeCheckpointKey(ck)) {
			cp, err := decodeCheckpoint(v)
			if err != nil {
				return fmt.Sprintf("K.%d=?", c)
			}
			return fmt.Sprintf("K.%d=%d.%d.%d", c, cp.Epoch, cp.LogStartOffset, cp.HW)
		}
		if bytes.Equal(k, encodeCommittedCursorKey(ck, "c")) {
			if len(v) != 8 {
				return fmt.Sprintf("U.%d=?", c)
			}
			return fmt.Sprintf("U.%d=%d", c, binary.BigEndian.Uint64(v))
		}
		if last, ok := decodeProposalByLastKey(ck, k); ok {
			rec, err := decodeDurableProposalRecord(v)
			if err != nil {
				return fmt.Sprintf("PL.%d.%d=?", c, last)
			}
			m := rec.manifest
			return fmt.Sprintf("PL.%d.%d=%d.%d.%s.%d.%d", c, last, m.BaseOffset, m.LastOffset, verifCmdTok(m.CommandID), m.LeaderTerm, m.PreviousTerm)
		}
		if cmd, ok := decodeProposalByCommandKey(ck, k); ok {
			rec, err := decodeDurableProposalRecord(v)
			if err != nil {
				return fmt.Sprintf("PC.%d.%s=?", c, verifCmdTok(cmd))
			}
			m := rec.manifest
			return fmt.Sprintf("PC.%d.%s=%d.%d.%s.%d.%d", c, verifCmdTok(cmd), m.BaseOffset, m.LastOffset, verifCmdTok(m.CommandID), m.LeaderTerm, m.PreviousTerm)
		}
		if idx, ok := decodeEntryIdentityKey(ck, k); ok {
			en, err := decodeDurableEntryIdentity(v)
			if err != nil {
				return fmt.Sprintf("E.%d.%d=?", c, idx)
			}
			return fmt.Sprintf("E.%d.%d=%d.%s.%d.%d", c, idx, en.Index, verifCmdTok(en.CommandID), en.LeaderTerm, en.PreviousTerm)
		}
	}
	return "X." + hex.EncodeToString(k)
}

func hashPayloadOrZero(p []byte) uint64 { return hashPayload(p) }

// VerifFailCommits makes the next n physical commits of the engine's commit coordinator fail
// (n = 0 restores `Commit(true)`), through the coordinator's own test seam SetCommitFunc.
func VerifFailCommits(e *Engine, n int) {
	e.mu.Lock()
	c := e.committer
	e.mu.Unlock()
	if c == nil {
		return
	}
	var seen atomic.Int32
	c.SetCommitFunc(func(b *engine.Batch) error {
		if int(seen.Add(1)) <= n {
			return errors.New("verif: injected commit failure")
		}
		return b.Commit(true)
	})
}

//go:build verif

package channelappend

import (
	"context"
)

// VerifCoalesce runs the real in-batch coalescing (newIdempotentAppendBatch) and
// expandCompletions on commands given in submission order.  unique[j] = original index
// of the j-th storage append; owner[i] = which storage append answers caller i;
// seqs[i]/committed[i] = what expandCompletions hands caller i when storage append j
// completed with MessageSeq j+1 and committed=true.
func VerifCoalesce(cmds []SendCommand) (unique []int, owner []int, seqs []uint64, committed []bool) {
	items := make([]preparedSend, len(cmds))
	for i, c := range cmds {
		items[i] = preparedSend{Index: i, Command: c}
	}
	batch := newIdempotentAppendBatch(items)
	unique = make([]int, len(batch.items))
	completions := make([]appendItemCompletion, len(batch.items))
	for j, it := range batch.items {
		unique[j] = it.Index
		completions[j] = appendItemCompletion{item: it, committed: true,
			result: SendBatchItemResult{Result: SendResult{MessageSeq: uint64(j + 1), Reason: ReasonSuccess}}}
	}
	owner = make([]int, len(cmds))
	if batch.ownerByItem == nil {
		for i := range owner {
			owner[i] = i
		}
	} else {
		copy(owner, batch.ownerByItem)
	}
	out := batch.expandCompletions(completions)
	seqs = make([]uint64, len(out))
	committed = make([]bool, len(out))
	for i, c := range out {
		seqs[i] = c.result.Result.MessageSeq
		committed[i] = c.committed
		if c.item.Index != i {
			seqs[i] = 1 << 40 // misaligned item: make it visible
		}
	}
	return
}

// VerifRecoverItem is one scripted input of VerifRecover.
type VerifRecoverItem struct {
	Cmd     SendCommand
	Lookup1 int // first durable lookup: 0 miss, 1 hit, 2 lookup error
	Lookup2 int // lookup after a failed retry
	Expired bool
}

type verifScriptStore struct {
	items []VerifRecoverItem
	calls map[string]int
}

func (s *verifScriptStore) LookupSend(_ context.Context, q IdempotencyQuery) (SendResult, bool, error) {
	for i, it := range s.items {
		if it.Cmd.FromUID == q.FromUID && it.Cmd.ClientMsgNo == q.ClientMsgNo {
			key := q.FromUID + "/" + q.ClientMsgNo
			n := s.calls[key]
			s.calls[key] = n + 1
			mode := it.Lookup1
			if n > 0 {
				mode = it.Lookup2
			}
			switch mode {
			case 1:
				return SendResult{MessageID: uint64(1000 + i), MessageSeq: uint64(10 + i), Reason: ReasonSuccess}, true, nil
			case 2:
				return SendResult{}, false, ErrRouteNotReady
			}
			return SendResult{}, false, nil
		}
	}
	return SendResult{}, false, nil
}

type verifScriptAppender struct {
	mode  int // 0 ok, 1 ErrAppendFailed, 2 ErrNotLeader, 3 short vector, 4 first item fails
	calls int
	sizes []int
}

func (a *verifScriptAppender) AppendBatch(_ context.Context, req AppendBatchRequest) (AppendBatchResult, error) {
	a.calls++
	a.sizes = append(a.sizes, len(req.Messages))
	switch a.mode {
	case 1:
		return AppendBatchResult{}, ErrAppendFailed
	case 2:
		return AppendBatchResult{}, ErrNotLeader
	}
	res := AppendBatchResult{}
	for i, m := range req.Messages {
		if a.mode == 3 && i == len(req.Messages)-1 {
			break
		}
		item := AppendBatchItemResult{MessageID: m.MessageID, MessageSeq: uint64(100 + i)}
		if a.mode == 4 && i == 0 {
			item = AppendBatchItemResult{Err: ErrChannelNotFound}
		}
		res.Items = append(res.Items, item)
	}
	return res, nil
}

// VerifRecover runs the real idempotency-recovery decision after a failed append
// (appendBatchErrorCompletionsOrRecoveriesAndRetry) with scripted lookups and a scripted
// retry appender.  errKind: 0 ErrAppendFailed, 1 ErrNotLeader.  hasStore=false = no store.
// Per item: class (0 success,1 error), seq, committed; plus the retry request sizes.
func VerifRecover(items []VerifRecoverItem, errKind int, hasStore bool, retryMode int) (class []int, seqs []uint64, committed []bool, retrySizes []int) {
	prepared := make([]preparedSend, len(items))
	for i, it := range items {
		prepared[i] = preparedSend{Index: i, Command: it.Cmd}
		if it.Expired {
			ctx, cancel := context.WithCancel(context.Background())
			cancel()
			prepared[i].Context = ctx
		}
	}
	app := &verifScriptAppender{mode: retryMode}
	ports := appendPorts{appender: app}
	if hasStore {
		ports.idempotency = &verifScriptStore{items: items, calls: map[string]int{}}
	}
	err := ErrAppendFailed
	if errKind == 1 {
		err = ErrNotLeader
	}
	out, _, _ := appendBatchErrorCompletionsOrRecoveriesAndRetry(context.Background(), AuthorityTarget{}, prepared, err, ports)
	class = make([]int, len(out))
	seqs = make([]uint64, len(out))
	committed = make([]bool, len(out))
	for i, c := range out {
		if c.result.Err != nil || c.result.Result.Reason != ReasonSuccess {
			class[i] = 1
		}
		seqs[i] = c.result.Result.MessageSeq
		committed[i] = c.committed
		if c.item.Index != i {
			class[i] = 9
		}
	}
	return class, seqs, committed, app.sizes
}

// VerifCompletionDrain feeds append completions with the given batch sequence numbers, in the given
// ARRIVAL order, to a real channelState exactly as applyAppendCompletion does (recordAppendCompletion, then
// the popNextAppendCompletion loop) and returns, per arrival, the batch sequence numbers drained.
func VerifCompletionDrain(arrivals []uint64) [][]uint64 {
	st := newChannelState(AuthorityTarget{}, channelStateLimits{})
	out := make([][]uint64, 0, len(arrivals))
	for _, seq := range arrivals {
		st.recordAppendCompletion(appendCompletedEvent{seq: seq})
		var drained []uint64
		for {
			ev, ok := st.popNextAppendCompletion()
			if !ok {
				break
			}
			drained = append(drained, ev.seq)
		}
		out = append(out, drained)
	}
	return out
}

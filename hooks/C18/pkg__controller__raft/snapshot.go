//go:build verif

package raft

import (
	"context"

	"github.com/WuKongIM/WuKongIM/pkg/controller/fsm"
	"go.etcd.io/raft/v3/raftpb"
)

type verifNoopMarker struct{}

func (verifNoopMarker) MarkAppliedBatch(context.Context, uint64) error { return nil }

// VerifInstallSnapshot drives the apply scheduler's snapshot-install path
// (applyJob with a snapshot and no entries) against a real state machine: the
// payload is decoded, its AppliedRaftIndex is reconciled with the snapshot
// metadata index, and the result is restored into sm.
func VerifInstallSnapshot(ctx context.Context, sm *fsm.StateMachine, data []byte, metaIndex, metaTerm uint64) error {
	s := newApplyScheduler(applySchedulerConfig{}, sm, verifNoopMarker{}, func(uint64, ProposalResult, error) {})
	return s.applyJob(ctx, toApply{snapshot: raftpb.Snapshot{Data: data, Metadata: raftpb.SnapshotMetadata{Index: metaIndex, Term: metaTerm}}})
}

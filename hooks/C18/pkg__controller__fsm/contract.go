//go:build verif

package fsm

import (
	"github.com/WuKongIM/WuKongIM/pkg/controller/command"
	"github.com/WuKongIM/WuKongIM/pkg/controller/state"
)

// VerifApplyMutation runs applyMutation — the guards and the command handler —
// on a deep copy of candidate, in a state machine whose PUBLISHED state is
// published, and returns the candidate afterwards.  It lets the harness check the
// contract the batch theorems need from the handlers: the outcome depends on the
// candidate only, and a Noop/Rejected command leaves the candidate untouched.
func VerifApplyMutation(published, candidate state.ClusterState, raftIndex, raftTerm uint64, cmd command.Command) (state.ClusterState, ApplyResult) {
	sm := &StateMachine{state: published.Clone()}
	next := candidate.Clone()
	res := sm.applyMutation(&next, raftIndex, raftTerm, cmd)
	return next, res
}

//go:build verif

package multiraft

// VerifPendingFutures reports how many proposal futures a slot still holds
// (submitted but not yet indexed, indexed but not yet resolved).  Add-only, read-only.
func VerifPendingFutures(r *Runtime, slotID SlotID) (submitted, pending int, role Role) {
	r.mu.RLock()
	g := r.slots[slotID]
	r.mu.RUnlock()
	if g == nil {
		return -1, -1, 0
	}
	g.mu.Lock()
	defer g.mu.Unlock()
	return len(g.submittedProposals), len(g.pendingProposals), g.status.Role
}

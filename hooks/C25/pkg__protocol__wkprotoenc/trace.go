//go:build verif

package wkprotoenc

import "crypto/cipher"

// VerifTrace records every single-block AES call the session crypto makes, in
// call order (16-byte inputs and outputs concatenated).  The Lean model takes
// the outputs as the oracle for the abstract block permutation E_k / D_k and
// must predict the inputs exactly.
type VerifTrace struct {
	EncIn, EncOut, DecIn, DecOut []byte
}

type verifTraceBlock struct {
	inner cipher.Block
	t     *VerifTrace
}

func (b verifTraceBlock) BlockSize() int { return b.inner.BlockSize() }

func (b verifTraceBlock) Encrypt(dst, src []byte) {
	b.t.EncIn = append(b.t.EncIn, src[:b.inner.BlockSize()]...)
	b.inner.Encrypt(dst, src)
	b.t.EncOut = append(b.t.EncOut, dst[:b.inner.BlockSize()]...)
}

func (b verifTraceBlock) Decrypt(dst, src []byte) {
	b.t.DecIn = append(b.t.DecIn, src[:b.inner.BlockSize()]...)
	b.inner.Decrypt(dst, src)
	b.t.DecOut = append(b.t.DecOut, dst[:b.inner.BlockSize()]...)
}

// VerifTracedCrypto builds the session crypto through the real NewSessionCrypto
// and wraps its AES block with the recorder.
func VerifTracedCrypto(keys SessionKeys) (*SessionCrypto, *VerifTrace, error) {
	sc, err := NewSessionCrypto(keys)
	if err != nil {
		return nil, nil, err
	}
	t := &VerifTrace{}
	sc.block = verifTraceBlock{inner: sc.block, t: t}
	return sc, t, nil
}

// VerifPaddingSize exposes pkcs7PaddingSize.
func VerifPaddingSize(payloadLen, blockSize int) int { return pkcs7PaddingSize(payloadLen, blockSize) }

// VerifUnpadView exposes pkcs7UnpadView.
func VerifUnpadView(payload []byte, blockSize int) ([]byte, error) {
	return pkcs7UnpadView(payload, blockSize)
}

// VerifDeriveAESKey exposes deriveAESKey.
func VerifDeriveAESKey(secret []byte) []byte { return deriveAESKey(secret) }

// VerifSharedSecret exposes sharedSecret.
func VerifSharedSecret(private, public [32]byte) ([]byte, error) { return sharedSecret(private, public) }

// VerifRandomIV exposes randomIV.
func VerifRandomIV() ([]byte, error) { return randomIV() }

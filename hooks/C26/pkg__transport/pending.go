//go:build verif

package transport

import "github.com/WuKongIM/WuKongIM/pkg/transport/internal/rpc"

// Exported aliases so that the C26 harness (outside pkg/transport) can drive the
// real pending-RPC table.
type VerifPendingTable = rpc.PendingTable
type VerifResponse = rpc.Response

func VerifNewPendingTable(shards int) *VerifPendingTable { return rpc.NewPendingTable(shards) }

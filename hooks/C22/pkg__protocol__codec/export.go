//go:build verif

package codec

import "github.com/WuKongIM/WuKongIM/pkg/protocol/frame"

// ADD-ONLY wrappers for the C22 correspondence harness (/verif/harness/C22).

// VerifEncodedFrameSize exposes encodedFrameSize (the precomputed buffer size).
func VerifEncodedFrameSize(f frame.Frame, version uint8) int { return encodedFrameSize(f, version) }

// VerifEncodeVariable2 runs encodeVariable2 (the remaining-length writer EncodeFrame uses).
func VerifEncodeVariable2(size uint32) []byte {
	enc := NewEncoder()
	encodeVariable2(size, enc)
	return append([]byte(nil), enc.Bytes()...)
}

// VerifEncodedVariableSize exposes encodedVariableSize.
func VerifEncodedVariableSize(size uint32) int { return encodedVariableSize(size) }

// VerifDecodeLength exposes decodeLength; ok=false means errDecodeLength.
func VerifDecodeLength(data []byte) (uint32, uint32, bool) {
	r, n, err := decodeLength(data)
	return r, n, err == nil
}
